#!/usr/bin/env python3
"""tools/add_params.py <params.tsv> : records, for every `//@ func` block of the contract mirror, the parameter
names the contract was written against (`//@   params ...`, receiver first), so that govc binds them
positionally and a later rename of a parameter in /repo does not invalidate the contract. Existing
`params` lines are left untouched (they record the names at contract-writing time)."""
import glob, os, re, sys
ROOT = os.path.dirname(os.path.dirname(os.path.abspath(__file__)))
params = {}
for l in open(sys.argv[1]):
    if "\t" in l:
        n, p = l.rstrip("\n").split("\t")
        params[n] = p
for f in glob.glob(os.path.join(ROOT, "contracts", "**", "contracts*_verif.go"), recursive=True):
    lines = open(f).read().split("\n")
    out, i, changed = [], 0, False
    while i < len(lines):
        out.append(lines[i])
        m = re.match(r"^//@ func (\S+)\s*$", lines[i])
        if m and m.group(1) in params and params[m.group(1)].strip():
            # look ahead: does the block already have a params line?
            j, has = i + 1, False
            while j < len(lines) and lines[j].startswith("//@") and not re.match(r"^//@ (func|extern|spec|registry|axiom|pure-externs)", lines[j]):
                if re.match(r"^//@\s+params\b", lines[j]):
                    has = True
                j += 1
            if not has:
                out.append("//@   params " + params[m.group(1)])
                changed = True
        i += 1
    if changed:
        open(f, "w").write("\n".join(out))
        print("updated", os.path.relpath(f, ROOT))
