#!/usr/bin/env python3
"""Writes /verif/MANIFEST.json from the table below (kept in one place so that
the manifest is always valid and current)."""
import json, os, subprocess

ROOT = os.path.dirname(os.path.dirname(os.path.abspath(__file__)))

NOTE = ("Trusted base: x/tools go/ssa as the meaning of the source; govc symbolic semantics (64-bit bit-vector ints, "
        "per-path object store, no aliasing between distinct symbolic inputs, loops cut with written invariants, "
        "goroutines/channels outside the subset); z3 5.1.0 / z3 4.8.12 / cvc5 1.0; assumed contracts in "
        "/verif/spec/assumed (stdlib, interfaces, crypto as uninterpreted functions). NOT DECIDED clauses are listed "
        "in the evidence 'assumptions'.")

TECH = "contract-based deductive verification: weakest-precondition/path VCs over go/ssa of the real functions, contracts as //@ comments, discharged by z3/cvc5"

# id -> (claimed text, design section) ; ids not here go to not_applicable with the reason given in NA
CLAIMS = {}
NA = {}

def load_table():
    p = os.path.join(ROOT, "spec", "claims.json")
    d = json.load(open(p))
    for k, v in d["claims"].items():
        CLAIMS[k] = v
    for k, v in d["not_applicable"].items():
        NA[k] = v

def main():
    load_table()
    checks = []
    for pid in sorted(CLAIMS):
        c = CLAIMS[pid]
        checks.append({
            "property_id": pid,
            "quick_cmd": f"./check {pid} quick",
            "thorough_cmd": f"./check {pid} thorough",
            "evidence_file": f"/verif/evidence/{pid}.json",
            "replay_cmd_template": "./check --replay {path}",
            "engine": "govc",
            "level_claimed": {"category": "proof", "text": c["text"], "design_ref": c.get("design_ref", "DESIGN.md section 2 " + pid)},
            "level_note": c.get("note", NOTE),
            "technique": TECH,
        })
    hooks_commits = []
    try:
        out = subprocess.run(["git", "-C", "/repo", "log", "--format=%H %s"], capture_output=True, text=True).stdout
        for line in out.splitlines():
            h, s = line.split(" ", 1)
            if s.startswith("verif:"):
                hooks_commits.append(h)
    except Exception:
        pass
    m = {
        "version": 1,
        "setup_cmd": "cd /verif/govc && PATH=/opt/veriftools/go1.26.8/bin:$PATH GOTOOLCHAIN=local GOFLAGS=-mod=mod GOPROXY=off GOSUMDB=off go build -o /verif/bin/govc .",
        "hooks": {
            "guard": "verif",
            "enable": "go build tag 'verif' (-tags=verif) adds the comment-only contract files <pkg>/contracts_verif.go; govc loads /repo with that tag",
            "baseline_off_cmd": "for m in . ./fsim ./sqlite ./tpm; do (cd /repo/$m && go test -mod=mod -json -vet=off -count=1 -timeout 25m ./...); done",
            "source_commits": hooks_commits,
            "add_only": True,
        },
        "engines": [{
            "name": "govc",
            "path": "/verif/govc",
            "serves_properties": sorted(CLAIMS),
            "kind_free_text": "verification-condition generator for Go written for this task: go/ssa path-by-path symbolic execution of the functions under contract, callee contracts at call sites, loop invariants, safety sweep, SMT-LIB bit-vector queries raced on z3 5.1.0 / z3 4.8.12 / cvc5 1.0; counterexamples replayed on the real code with go test -overlay",
        }],
        "checks": checks,
        "notes": "Contracts live in /repo/<pkg>/contracts_verif.go (build tag verif, comment-only) mirrored under /verif/contracts; assumed contracts in /verif/spec/assumed; known findings in /verif/known_findings.json; baseline obligation names in /verif/baseline_obligations.json. See DESIGN.md.",
        "not_applicable": [{"property_id": k, "reason": NA[k]} for k in sorted(NA)],
    }
    json.dump(m, open(os.path.join(ROOT, "MANIFEST.json"), "w"), indent=1)
    print("wrote MANIFEST.json:", len(checks), "checks,", len(NA), "not applicable")

if __name__ == "__main__":
    main()
