#!/bin/bash
# Runs every claimed check (quick) and reports one line each; then the selftest corpus.
cd "$(dirname "$0")/.."
rc=0
for p in $(python3 -c "import json; print(' '.join(c['property_id'] for c in json.load(open('MANIFEST.json'))['checks']))"); do
  out=$(./g check $p quick 2>&1); r=$?
  echo "$out" | tail -1
  [ $r -eq 0 ] || { rc=1; echo "$out" | grep VIOLATION | head -5; }
done
[ "$1" = "--selftest" ] && { tools/selftest.sh || rc=1; }
exit $rc
