#!/bin/bash
# dev helper: tools/try.sh <fn,fn,...> <<< "sed script applied to files"   (usage: tools/try.sh FNS FILE 's/a/b/')
# Copies /repo to a scratch dir, applies `sed -i EXPR FILE`, runs govc on the functions, removes the copy.
export PATH=/opt/veriftools/go1.26.8/bin:$PATH GOTOOLCHAIN=local GOFLAGS=-mod=mod GOPROXY=off GOSUMDB=off
V="$(cd "$(dirname "$0")/.." && pwd)"
export VERIF_ROOT="$V" VERIF_PREFER_MIRROR=1
fns="$1"; file="$2"; expr="$3"; mod="${4:-}"
S=$(mktemp -d /tmp/try.XXXXXX)
rsync -a --exclude .git /repo/ "$S/"
sed -i -E "$expr" "$S/$file"
(cd $S && diff -u /repo/$file $file | head -20)
(cd $S && go build ./... 2>&1 | head -5)
VERIF_REPO="$S" "$V/bin/govc" run -fn "$fns" -mod "$mod" 2>&1 | grep -v "^   discharged" | cut -c1-300 | head -${TRY_LINES:-30}
rm -rf "$S"
