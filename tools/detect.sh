#!/bin/bash
# tools/detect.sh <seed-dir>... : applies each seed's patch.diff to a scratch copy of /repo and runs
# the quick check of its property; prints detected / MISSED with the violated obligations.
export PATH=/opt/veriftools/go1.26.8/bin:$PATH GOTOOLCHAIN=local GOFLAGS=-mod=mod GOPROXY=off GOSUMDB=off
V="$(cd "$(dirname "$0")/.." && pwd)"
export VERIF_ROOT="$V" VERIF_PREFER_MIRROR=1
for d in "$@"; do
  d="$(cd "$d" && pwd)"; name=$(basename "$d")
  prop=$(python3 -c "import json; print(json.load(open('$d/meta.json'))['property'])")
  S=$(mktemp -d /tmp/detect.XXXXXX)
  rsync -a --exclude .git /repo/ "$S/"
  (cd "$S" && patch -p1 -s < "$d/patch.diff") || { echo "DETECT $name: patch does not apply"; rm -rf "$S"; continue; }
  out=$(VERIF_REPO="$S" VERIF_OUT="$S/.out" "$V/bin/govc" check "$prop" quick 2>&1); rc=$?
  if [ $rc -eq 1 ]; then echo "DETECT $name ($prop): detected"; echo "$out" | grep VIOLATION | sed -e 's/replay=[^ ]* //' | cut -c1-220 | head -4; else echo "DETECT $name ($prop): MISSED (rc=$rc)"; echo "$out" | tail -2; fi
  rm -rf "$S"
done
