#!/usr/bin/env python3
"""tools/add_locals.py <locals.tsv> : records, for every `//@ func` block of the contract mirror, the SSA value
descriptors of the locals its clauses mention (`//@   local <name> = <desc> | ...`), as printed by `govc locals`
on the tree the contract was written against. govc binds those names structurally in addition to the source
names, so renaming a local in /repo does not invalidate the contract. Existing `local` lines of a block are
replaced (run it only on a tree where every check is green)."""
import glob, os, re, sys, collections
ROOT = os.path.dirname(os.path.dirname(os.path.abspath(__file__)))
loc = collections.defaultdict(list)
for l in open(sys.argv[1]):
    parts = l.rstrip("\n").split("\t")
    if len(parts) == 3:
        loc[parts[0]].append((parts[1], parts[2]))
for f in glob.glob(os.path.join(ROOT, "contracts", "**", "contracts*_verif.go"), recursive=True):
    lines = open(f).read().split("\n")
    out, i, changed = [], 0, False
    while i < len(lines):
        l = lines[i]
        if re.match(r"^//@\s+local\s", l):
            changed = True
            i += 1
            continue
        out.append(l)
        m = re.match(r"^//@ func (\S+)\s*$", l)
        if m and m.group(1) in loc:
            # after an optional params line
            if i + 1 < len(lines) and re.match(r"^//@\s+params\b", lines[i + 1]):
                out.append(lines[i + 1])
                i += 1
            for name, d in loc[m.group(1)]:
                out.append(f"//@   local {name} = {d}")
            changed = True
        i += 1
    if changed:
        open(f, "w").write("\n".join(out))
        print("updated", os.path.relpath(f, ROOT))
