#!/bin/bash
# tools/falsealarm.sh <refactor-dir>... : applies each behaviour-preserving patch.diff to a scratch copy of /repo
# and runs EVERY claimed quick check on it; any VIOLATION is a false alarm of the machinery.
export PATH=/opt/veriftools/go1.26.8/bin:$PATH GOTOOLCHAIN=local GOFLAGS=-mod=mod GOPROXY=off GOSUMDB=off
V="$(cd "$(dirname "$0")/.." && pwd)"
export VERIF_ROOT="$V" VERIF_PREFER_MIRROR=1
props=$(python3 -c "import json; print(' '.join(c['property_id'] for c in json.load(open('$V/MANIFEST.json'))['checks']))")
for d in "$@"; do
  d="$(cd "$d" && pwd)"; name=$(basename "$d")
  S=$(mktemp -d /tmp/fa.XXXXXX)
  rsync -a --exclude .git /repo/ "$S/"
  (cd "$S" && patch -p1 -s < "$d/patch.diff") || { echo "FA $name: patch does not apply"; rm -rf "$S"; continue; }
  alarms=0
  for p in $props; do
    out=$(VERIF_REPO="$S" VERIF_OUT="$S/.out" "$V/bin/govc" check "$p" quick 2>&1); rc=$?
    if [ $rc -ne 0 ]; then alarms=$((alarms+1)); echo "FA $name: ALARM in $p"; echo "$out" | grep VIOLATION | sed -e 's/replay=[^ ]* //' | cut -c1-200 | head -4; fi
  done
  [ $alarms -eq 0 ] && echo "FA $name: quiet"
  rm -rf "$S"
done
