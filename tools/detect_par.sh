#!/bin/bash
# tools/detect_par.sh <jobs> <seed-dir>... : tools/detect.sh on every seed, <jobs> at a time; the output of each
# seed is kept together. Use for the full corpus (sequentially it takes hours).
cd "$(dirname "$0")/.."
J=$1; shift
T=$(mktemp -d /tmp/detpar.XXXXXX)
printf '%s\n' "$@" | xargs -P "$J" -I{} bash -c 'tools/detect.sh "{}" > '"$T"'/$(basename {}).out 2>&1'
cat "$T"/*.out
rm -rf "$T"
