#!/bin/bash
# Must-fail corpus: every patch under /verif/selftest/<name>/ (patch.diff +
# meta.json {"property": "Cxx", "expect": ["obligation substring", ...]}) and
# under /verif/seeded/<name>/ is applied to a scratch copy of /repo; the check
# of the property must exit 1 and name the expected obligations.
#   usage: tools/selftest.sh [name-substring]
export PATH=/opt/veriftools/go1.26.8/bin:$PATH GOTOOLCHAIN=local GOFLAGS=-mod=mod GOPROXY=off GOSUMDB=off
V="$(cd "$(dirname "$0")/.." && pwd)"
export VERIF_ROOT="$V"
export VERIF_PREFER_MIRROR=1
[ -x "$V/bin/govc" ] || (cd "$V/govc" && go build -o ../bin/govc .) || exit 2
fail=0; n=0
for d in "$V"/selftest/*/ "$V"/seeded/*/; do
  [ -f "$d/patch.diff" ] || continue
  name=$(basename "$d")
  case "$name" in *"$1"*) ;; *) continue;; esac
  prop=$(python3 -c "import json,sys; print(json.load(open('$d/meta.json'))['property'])")
  S=$(mktemp -d /tmp/selftest.XXXXXX)
  rsync -a --exclude .git /repo/ "$S/"
  if ! (cd "$S" && patch -p1 -s < "$d/patch.diff"); then echo "SELFTEST $name: patch does not apply"; fail=1; rm -rf "$S"; continue; fi
  out=$(VERIF_REPO="$S" VERIF_OUT="$S/.out" "$V/bin/govc" check "$prop" quick 2>&1); rc=$?
  n=$((n+1))
  ok=1
  [ $rc -eq 1 ] || ok=0
  for e in $(python3 -c "import json; print(' '.join(json.load(open('$d/meta.json')).get('expect',[])))"); do
    echo "$out" | grep -q "VIOLATION.*$e" || ok=0
  done
  if [ $ok -eq 1 ]; then echo "SELFTEST $name ($prop): detected"; else echo "SELFTEST $name ($prop): MISSED (rc=$rc)"; echo "$out" | tail -5; fail=1; fi
  rm -rf "$S"
done
echo "selftest: $n patches, fail=$fail"
exit $fail
