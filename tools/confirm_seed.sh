#!/bin/bash
# tools/confirm_seed.sh <seed-dir> : re-confirms a seeded change on a scratch copy of /repo:
#  patch applies, builds, the existing suites pass with it, the demo fails with it and passes without it.
# Writes <seed-dir>/confirm.log and prints one summary line.
export PATH=/opt/veriftools/go1.26.8/bin:$PATH GOTOOLCHAIN=local GOFLAGS=-mod=mod GOPROXY=off GOSUMDB=off
d="$(cd "$1" && pwd)"; name=$(basename "$d")
pkgdir=$(python3 -c "import json;print(json.load(open('$d/meta.json')).get('demo_pkg_dir','.'))")
run=$(python3 -c "import json;print(json.load(open('$d/meta.json')).get('demo_run','.'))")
S=$(mktemp -d /tmp/confirm.XXXXXX)
log="$d/confirm.log"; : > "$log"
rsync -a --exclude .git --exclude 'contracts*_verif.go' /repo/ "$S/"
cd "$S"
ok=1
# module dir of the demo
moddir=.; case "$pkgdir" in fsim*|sqlite*|tpm*) moddir=${pkgdir%%/*};; esac
rel=${pkgdir#$moddir}; rel=${rel#/}; [ -z "$rel" ] && rel=.
demo() { (cd "$S/$moddir" && go test -vet=off -count=1 -timeout 300s -run "$run" ./$rel/ 2>&1 | tail -15); }
cp "$d"/demo_test.go "$S/$pkgdir/zz_seed_demo_test.go"
echo "== demo WITHOUT change" >> "$log"; out=$(demo); echo "$out" >> "$log"; echo "$out" | grep -q "^ok" || { ok=0; echo "demo does not pass on clean tree" >> "$log"; }
rm -f "$S/$pkgdir/zz_seed_demo_test.go"
if ! patch -p1 -s < "$d/patch.diff" >> "$log" 2>&1; then echo "CONFIRM $name: patch does not apply"; rm -rf "$S"; exit 1; fi
echo "== build" >> "$log"; (go build ./... >> "$log" 2>&1 && for m in fsim sqlite tpm; do (cd $m && go build ./... >> "$log" 2>&1) || exit 1; done) || { ok=0; echo "build failed" >> "$log"; }
echo "== suites WITH change" >> "$log"
for m in . fsim sqlite tpm; do out=$(cd $m && go test -vet=off -count=1 -timeout 20m ./... 2>&1 | grep -v "no test files" | tail -20); echo "$out" >> "$log"; echo "$out" | grep -q "^FAIL\|^---\ FAIL\|panic:" && { ok=0; echo "suite $m fails with change" >> "$log"; }; done
cp "$d"/demo_test.go "$S/$pkgdir/zz_seed_demo_test.go"
echo "== demo WITH change" >> "$log"; out=$(demo); echo "$out" >> "$log"; echo "$out" | grep -q "FAIL" || { ok=0; echo "demo does not fail with change" >> "$log"; }
cd /; rm -rf "$S"
[ $ok -eq 1 ] && echo "CONFIRM $name: confirmed" || echo "CONFIRM $name: NOT confirmed (see $log)"
