#!/bin/bash
# Copies the contract mirror /verif/contracts/** into /repo/** (comment-only
# files behind the build tag "verif") and commits them there as a hook commit.
set -e
cd /verif/contracts
find . -name "contracts*_verif.go" | while read f; do
  mkdir -p "/repo/$(dirname "$f")"
  cp "$f" "/repo/$f"
done
cd /repo
git add -A -- $(cd /verif/contracts && find . -name "contracts*_verif.go" | sed 's|^\./||')
for m in fsim sqlite; do [ -f /repo/$m/contracts_verif.go ] && git add $m/contracts_verif.go; done
if git diff --cached --quiet; then echo "contracts already in sync"; else git commit -q -m "verif: contract files (comment-only, build tag verif) for govc"; git log --oneline | head -1; fi
