#!/bin/bash
# tools/falsealarm_par.sh <jobs> <refactor-dir>... : tools/falsealarm.sh on every refactor, <jobs> at a time;
# each refactor's output is written to <outdir>/<name>.out as soon as it is done (outdir = $FA_OUT or /tmp/fapar)
cd "$(dirname "$0")/.."
J=$1; shift
T=${FA_OUT:-/tmp/fapar}; mkdir -p "$T"
printf '%s\n' "$@" | xargs -P "$J" -I{} bash -c 'tools/falsealarm.sh "{}" > '"$T"'/$(basename {}).out.tmp 2>&1; mv '"$T"'/$(basename {}).out.tmp '"$T"'/$(basename {}).out'
cat "$T"/*.out
