//go:build verif

// Contracts for package cbor, checked by /verif/govc. Comment-only file.
package cbor

//@ spec macro be8(s) = uint64(s[0])<<56 | uint64(s[1])<<48 | uint64(s[2])<<40 | uint64(s[3])<<32 | uint64(s[4])<<24 | uint64(s[5])<<16 | uint64(s[6])<<8 | uint64(s[7])
//@ spec macro be4(s) = uint64(s[0])<<24 | uint64(s[1])<<16 | uint64(s[2])<<8 | uint64(s[3])
//@ spec macro be2(s) = uint64(s[0])<<8 | uint64(s[1])
//@ spec macro be(s) = ite(len(s) == 8, be8(s), ite(len(s) == 4, be4(s), ite(len(s) == 2, be2(s), ite(len(s) == 1, uint64(s[0]), 0))))

//@ func cbor.u64Bytes
//@   props C11
//@   sweep bounds,panic
//@   ensures @lenset len(result) == 1 || len(result) == 2 || len(result) == 4 || len(result) == 8
//@   ensures @value be(result) == u64
//@   ensures @min1 len(result) == 1 <==> u64 < 1<<8
//@   ensures @min2 len(result) == 2 <==> (u64 >= 1<<8 && u64 < 1<<16)
//@   ensures @min4 len(result) == 4 <==> (u64 >= 1<<16 && u64 < 1<<32)
//@   ensures @min8 len(result) == 8 <==> u64 >= 1<<32
