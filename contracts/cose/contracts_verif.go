//go:build verif

// Contracts for package cose, checked by /verif/govc (see /verif/DESIGN.md).
// Comment-only file: it adds nothing to any build.
package cose

// SigOk(s1, key) is DEFINED as "Sign1.Verify(s1, key) returned (true, nil)" for
// the object's own payload and empty external data; the mechanism that makes
// this mean "the Sig_structure of exactly these operands verifies under key" is
// pinned down by the callasserts inside Verify (C13).
//@ func cose.Sign1.Verify
//@   props C13 C10(sweep)
//@   sweep bounds,panic,make,nilmem
//@   pure
//@   ensures! result0 && err == nil && payload == nil ==> SigOk(u(s1), u(key))
//@   ensures @errfalse err != nil ==> !result0
//@   ensures @payload err == nil && payload == nil ==> s1.Payload != nil
