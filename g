#!/bin/bash
# dev wrapper: ./g run -fn ... (sets the offline Go environment, rebuilds govc if stale)
export PATH=/opt/veriftools/go1.26.8/bin:$PATH GOTOOLCHAIN=local GOFLAGS=-mod=mod GOPROXY=off GOSUMDB=off
D="$(cd "$(dirname "$0")" && pwd)"
export VERIF_ROOT="$D"
export VERIF_PREFER_MIRROR=1
if [ ! -x $D/bin/govc ] || [ -n "$(find $D/govc -newer $D/bin/govc -name '*.go' 2>/dev/null | head -1)" ]; then
  (cd $D/govc && go build -o ../bin/govc .) || exit 2
fi
exec $D/bin/govc "$@"
