package main

func runSelftest(args []string) int { return 2 }
