package main

// Replay of counterexamples against the real code with `go test -overlay`
// (nothing is written into /repo).
//
// 1. Generic: package-level functions whose parameters are integers, bools,
//    strings and byte slices are called with the model's inputs; a panic or a
//    violated (compiled) postcondition confirms the counterexample.
// 2. Templates: /verif/replay/templates/<function>.go is an in-package test
//    ("attack template") run when an obligation of that function fails; a
//    failing template confirms the violation with a concrete input.

import (
	"bytes"
	"context"
	"encoding/json"
	"fmt"
	"go/ast"
	"go/parser"
	"go/printer"
	"go/token"
	"go/types"
	"os"
	"os/exec"
	"path/filepath"
	"strings"
	"time"

	"golang.org/x/tools/go/ssa"
)

type ReplayResult struct {
	Kind      string `json:"kind"` // generic | template | none
	Confirmed bool   `json:"confirmed"`
	TestFile  string `json:"test_file,omitempty"`
	Cmd       string `json:"cmd,omitempty"`
	Output    string `json:"output,omitempty"`
	Reason    string `json:"reason,omitempty"`
}

func tryReplay(s *Session, o *ObSummary, model map[string]string, outPath string) *ReplayResult {
	mod := moduleOf(o.Fn)
	p := s.progs[mod]
	if p == nil {
		return &ReplayResult{Kind: "none", Reason: "module not loaded"}
	}
	fn := p.Funcs[o.Fn]
	if fn == nil || fn.Pkg == nil {
		return &ReplayResult{Kind: "none", Reason: "function not found"}
	}
	pkgDir := ""
	for _, pk := range p.Pkgs {
		if pk.Types == fn.Pkg.Pkg && len(pk.GoFiles) > 0 {
			pkgDir = filepath.Dir(pk.GoFiles[0])
		}
	}
	if pkgDir == "" {
		return &ReplayResult{Kind: "none", Reason: "package directory not found"}
	}
	// template?
	tmpl := filepath.Join(verifRoot(), "replay", "templates", sanitizeFile(o.Fn)+".go")
	if b, err := os.ReadFile(tmpl); err == nil {
		os.WriteFile(outPath, b, 0o644)
		return runReplayTest(pkgDir, outPath, "template")
	}
	src, reason := genericReplay(p, fn, o, model)
	if src == "" {
		return &ReplayResult{Kind: "none", Reason: reason}
	}
	os.WriteFile(outPath, []byte(src), 0o644)
	return runReplayTest(pkgDir, outPath, "generic")
}

func runReplayTest(pkgDir, testFile, kind string) *ReplayResult {
	tmp, err := os.MkdirTemp("", "govc-replay-")
	if err != nil {
		return &ReplayResult{Kind: kind, Reason: err.Error()}
	}
	defer os.RemoveAll(tmp)
	ov := map[string]map[string]string{"Replace": {filepath.Join(pkgDir, "zz_govc_replay_test.go"): testFile}}
	ob, _ := json.Marshal(ov)
	ovPath := filepath.Join(tmp, "ov.json")
	os.WriteFile(ovPath, ob, 0o644)
	ctx, cancel := context.WithTimeout(context.Background(), 180*time.Second)
	defer cancel()
	args := []string{"test", "-overlay", ovPath, "-vet=off", "-timeout", "60s", "-count=1", "-run", "TestGovcReplay", "."}
	cmd := exec.CommandContext(ctx, "go", args...)
	cmd.Dir = pkgDir
	cmd.Env = append(os.Environ(), "GOFLAGS=-mod=mod", "GOPROXY=off", "GOSUMDB=off", "GOTOOLCHAIN=local", "GOCACHE="+filepath.Join(os.TempDir(), "govc-gocache"))
	var out bytes.Buffer
	cmd.Stdout, cmd.Stderr = &out, &out
	err = cmd.Run()
	res := &ReplayResult{Kind: kind, TestFile: testFile, Cmd: "cd " + pkgDir + " && go " + strings.Join(args, " "), Output: out.String()}
	if len(res.Output) > 4000 {
		res.Output = res.Output[:4000]
	}
	// Confirmed = the test ran and failed (panic or violated postcondition).
	if err != nil && (strings.Contains(out.String(), "--- FAIL") || strings.Contains(out.String(), "panic:")) {
		res.Confirmed = true
	} else if err != nil {
		res.Reason = "replay test did not build or run"
	} else {
		res.Reason = "real code behaves correctly on the replayed input (counterexample is spurious or needs more state than the model provides)"
	}
	return res
}

func genericReplay(p *Prog, fn *ssa.Function, o *ObSummary, model map[string]string) (string, string) {
	if fn.Signature.Recv() != nil || fn.Parent() != nil || fn.TypeParams().Len() > 0 {
		return "", "no generic replay for methods, closures or generic functions"
	}
	var args []string
	qual := func(pk *types.Package) string {
		if pk == fn.Pkg.Pkg {
			return ""
		}
		return pk.Name()
	}
	for _, prm := range fn.Params {
		t := prm.Type()
		ts := types.TypeString(t, qual)
		if strings.Contains(ts, ".") {
			return "", "parameter type from another package"
		}
		switch u := under(t).(type) {
		case *types.Basic:
			switch {
			case u.Info()&types.IsInteger != 0:
				v, ok := modelUint(model[prm.Name()])
				if !ok {
					v = 0
				}
				if isSigned(t) {
					wd, _ := scalarWidth(t)
					sv := int64(v)
					if wd < 64 && v&(1<<uint(wd-1)) != 0 {
						sv = int64(v | ^uint64(0)<<uint(wd))
					}
					args = append(args, fmt.Sprintf("%s(%d)", ts, sv))
				} else {
					args = append(args, fmt.Sprintf("%s(%d)", ts, v))
				}
			case u.Info()&types.IsBoolean != 0:
				args = append(args, fmt.Sprintf("%s(%v)", ts, model[prm.Name()] == "true"))
			case u.Info()&types.IsString != 0:
				n, _ := modelUint(model[prm.Name()+".len"])
				if n > 1<<20 {
					return "", "model needs a string larger than 1 MiB"
				}
				args = append(args, fmt.Sprintf("%s(govcBytes(%d, %s))", ts, n, elemList(model, prm.Name(), n)))
			default:
				return "", "unsupported parameter type " + ts
			}
		case *types.Slice:
			if wd, ok := scalarWidth(u.Elem()); !ok || wd != 8 {
				return "", "unsupported slice parameter " + ts
			}
			n, _ := modelUint(model[prm.Name()+".len"])
			if n > 1<<20 {
				return "", "model needs a slice larger than 1 MiB"
			}
			args = append(args, fmt.Sprintf("%s(govcBytes(%d, %s))", ts, n, elemList(model, prm.Name(), n)))
		default:
			return "", "unsupported parameter type " + ts
		}
	}
	con := p.CS.ByName[o.Fn]
	var b strings.Builder
	fmt.Fprintf(&b, "package %s\n\nimport \"testing\"\n\n", fn.Pkg.Pkg.Name())
	b.WriteString("// Generated by govc from a solver model; obligation " + o.Name + "\n")
	b.WriteString("func govcBytes(n int, head []byte) []byte { b := make([]byte, n); copy(b, head); return b }\n")
	b.WriteString("func govcIte[T any](c bool, a, b T) T { if c { return a }; return b }\n")
	b.WriteString("func govcAt[S ~[]byte | ~string](s S, i int) byte { if i < 0 || i >= len(s) { return 0 }; return s[i] }\n\n")
	b.WriteString("func TestGovcReplay(t *testing.T) {\n")
	var lhs []string
	rs := fn.Signature.Results()
	for i := 0; i < rs.Len(); i++ {
		lhs = append(lhs, fmt.Sprintf("govcR%d", i))
	}
	call := fmt.Sprintf("%s(%s)", fn.Name(), strings.Join(args, ", "))
	// parameters as locals so that postconditions can name them
	for i, prm := range fn.Params {
		fmt.Fprintf(&b, "\t%s := %s\n\t_ = %s\n", prm.Name(), args[i], prm.Name())
	}
	var names []string
	for _, prm := range fn.Params {
		names = append(names, prm.Name())
	}
	call = fmt.Sprintf("%s(%s)", fn.Name(), strings.Join(names, ", "))
	if len(lhs) > 0 {
		fmt.Fprintf(&b, "\t%s := %s\n", strings.Join(lhs, ", "), call)
		for _, l := range lhs {
			fmt.Fprintf(&b, "\t_ = %s\n", l)
		}
	} else {
		fmt.Fprintf(&b, "\t%s\n", call)
	}
	if con != nil && o.Class == "ensures" {
		ren := map[string]string{"result": "govcR0"}
		for i := 0; i < rs.Len(); i++ {
			ren[fmt.Sprintf("result%d", i)] = fmt.Sprintf("govcR%d", i)
			if n := rs.At(i).Name(); n != "" {
				ren[n] = fmt.Sprintf("govcR%d", i)
			}
		}
		if rs.Len() > 0 && types.TypeString(rs.At(rs.Len()-1).Type(), nil) == "error" {
			if _, ok := ren["err"]; !ok {
				ren["err"] = fmt.Sprintf("govcR%d", rs.Len()-1)
			}
		}
		for k, c := range con.Ensures {
			lbl := c.Label
			if lbl == "" {
				lbl = fmt.Sprint(k + 1)
			}
			if !strings.HasSuffix(o.Name, "#ensures#"+lbl) {
				continue
			}
			g, err := goExpr(p.CS, c.Src, ren, 0)
			if err != nil {
				fmt.Fprintf(&b, "\t// postcondition not compilable to Go: %v\n", err)
				continue
			}
			fmt.Fprintf(&b, "\tif !(%s) {\n\t\tt.Fatalf(\"postcondition violated: %%s\", %q)\n\t}\n", g, c.Src)
		}
	}
	b.WriteString("}\n")
	return b.String(), ""
}

func elemList(model map[string]string, name string, n uint64) string {
	var parts []string
	for k := uint64(0); k < n && k < 64; k++ {
		v, _ := modelUint(model[fmt.Sprintf("%s[%d]", name, k)])
		parts = append(parts, fmt.Sprint(v))
	}
	return "[]byte{" + strings.Join(parts, ", ") + "}"
}

// goExpr compiles a contract expression to Go source (quantifier-free subset).
func goExpr(cs *ContractSet, src string, ren map[string]string, depth int) (string, error) {
	src = strings.TrimSpace(src)
	if depth > 20 {
		return "", fmt.Errorf("macro expansion too deep")
	}
	if strings.HasPrefix(src, "forall ") {
		return "", fmt.Errorf("quantifier")
	}
	if parts := splitOp(src, "<==>"); len(parts) == 2 {
		a, err := goExpr(cs, parts[0], ren, depth)
		if err != nil {
			return "", err
		}
		b, err := goExpr(cs, parts[1], ren, depth)
		if err != nil {
			return "", err
		}
		return fmt.Sprintf("((%s) == (%s))", a, b), nil
	}
	if parts := splitOp(src, "==>"); len(parts) >= 2 {
		a, err := goExpr(cs, parts[0], ren, depth)
		if err != nil {
			return "", err
		}
		b, err := goExpr(cs, strings.Join(parts[1:], "==>"), ren, depth)
		if err != nil {
			return "", err
		}
		return fmt.Sprintf("(!(%s) || (%s))", a, b), nil
	}
	e, err := parser.ParseExpr(src)
	if err != nil {
		return "", err
	}
	var rerr error
	var rewrite func(n ast.Expr) ast.Expr
	rewrite = func(n ast.Expr) ast.Expr {
		switch x := n.(type) {
		case *ast.Ident:
			if r, ok := ren[x.Name]; ok {
				pe, _ := parser.ParseExpr("(" + r + ")")
				return pe
			}
			return x
		case *ast.ParenExpr:
			return &ast.ParenExpr{X: rewrite(x.X)}
		case *ast.BinaryExpr:
			return &ast.BinaryExpr{X: rewrite(x.X), Op: x.Op, Y: rewrite(x.Y)}
		case *ast.UnaryExpr:
			return &ast.UnaryExpr{Op: x.Op, X: rewrite(x.X)}
		case *ast.StarExpr:
			return &ast.StarExpr{X: rewrite(x.X)}
		case *ast.SelectorExpr:
			return &ast.SelectorExpr{X: rewrite(x.X), Sel: x.Sel}
		case *ast.IndexExpr:
			// total indexing: out-of-range reads yield 0 (the SMT side leaves them arbitrary)
			return &ast.CallExpr{Fun: ast.NewIdent("govcAt"), Args: []ast.Expr{rewrite(x.X), rewrite(x.Index)}}
		case *ast.SliceExpr:
			ns := &ast.SliceExpr{X: rewrite(x.X)}
			if x.Low != nil {
				ns.Low = rewrite(x.Low)
			}
			if x.High != nil {
				ns.High = rewrite(x.High)
			}
			return ns
		case *ast.CallExpr:
			id, ok := x.Fun.(*ast.Ident)
			if !ok {
				rerr = fmt.Errorf("unsupported call")
				return x
			}
			var args []ast.Expr
			for _, a := range x.Args {
				args = append(args, rewrite(a))
			}
			switch id.Name {
			case "ite":
				return &ast.CallExpr{Fun: ast.NewIdent("govcIte"), Args: args}
			case "old":
				return args[0]
			case "imp":
				return &ast.ParenExpr{X: &ast.BinaryExpr{X: &ast.UnaryExpr{Op: token.NOT, X: &ast.ParenExpr{X: args[0]}}, Op: token.LOR, Y: &ast.ParenExpr{X: args[1]}}}
			case "iff":
				return &ast.ParenExpr{X: &ast.BinaryExpr{X: &ast.ParenExpr{X: args[0]}, Op: token.EQL, Y: &ast.ParenExpr{X: args[1]}}}
			case "u", "fold", "bytes", "unwrap", "dyntype", "isnil":
				rerr = fmt.Errorf("ghost function %s", id.Name)
				return x
			}
			if sm, ok := cs.Macros[id.Name]; ok {
				sub := map[string]string{}
				for i, p := range sm.Params {
					if i < len(args) {
						var buf bytes.Buffer
						printer.Fprint(&buf, token.NewFileSet(), args[i])
						sub[p] = buf.String()
					}
				}
				g, err := goExpr(cs, sm.Body, sub, depth+1)
				if err != nil {
					rerr = err
					return x
				}
				pe, err := parser.ParseExpr("(" + g + ")")
				if err != nil {
					rerr = err
					return x
				}
				return pe
			}
			if _, ok := cs.Funcs[id.Name]; ok {
				rerr = fmt.Errorf("uninterpreted function %s", id.Name)
				return x
			}
			return &ast.CallExpr{Fun: x.Fun, Args: args}
		}
		return n
	}
	out := rewrite(e)
	if rerr != nil {
		return "", rerr
	}
	var buf bytes.Buffer
	printer.Fprint(&buf, token.NewFileSet(), out)
	return buf.String(), nil
}

// cmdReplay prints a replay file and re-runs its test against the real code.
func cmdReplay(path string) int {
	b, err := os.ReadFile(path)
	if err != nil {
		fmt.Fprintln(os.Stderr, err)
		return 2
	}
	fmt.Println(string(b))
	var rf replayFile
	if json.Unmarshal(b, &rf) != nil || rf.Replay == nil || rf.Replay.TestFile == "" {
		fmt.Println("no executable replay recorded (no-failing-input-found): the file above names the failed obligation and carries the solver output")
		return 0
	}
	// cmd recorded as: cd <pkgDir> && go test ...
	pkgDir := strings.TrimPrefix(strings.SplitN(rf.Replay.Cmd, " && ", 2)[0], "cd ")
	rr := runReplayTest(pkgDir, rf.Replay.TestFile, rf.Replay.Kind)
	fmt.Println(rr.Output)
	if rr.Confirmed {
		fmt.Println("replay: violation reproduced on the real code")
		return 1
	}
	fmt.Println("replay: not reproduced:", rr.Reason)
	return 0
}
