package main

// Symbolic values and the per-path store.

import (
	"fmt"
	"go/types"
	"hash/fnv"
	"strings"
)

type Val interface{}

type VInt struct {
	T string
	W int
}
type VBool struct{ T string }

// VStr is a string: immutable content, offset and length (BV64).
type VStr struct {
	C        Content
	Off, Len string
}

// VSlice is a slice header over a backing array object.
type VSlice struct {
	A             *ArrObj
	Off, Len, Cap string
	Nil           string // Bool term
}

// VArrRef is an array stored in memory (identity = storage).
type VArrRef struct {
	A *ArrObj
	N int64
}

// VArrVal is an array value in a register (snapshot).
type VArrVal struct {
	S ArrState
	N int64
	E types.Type
}

type PathElem struct {
	Field int
	Idx   string // non-empty: array index (BV64 term) inside an in-memory array
}

const (
	OrigKnown = iota // address of an allocation: never nil
	OrigParam
	OrigMem  // loaded from memory whose content is not known (wire data, config)
	OrigCall // returned by a call
)

type VPtr struct {
	Root   *Obj    // root object, or nil
	Arr    *ArrObj // or: element of a backing array
	Idx    string  // element index (absolute, BV64) when Arr != nil
	Path   []PathElem
	Nil    string // Bool term
	Origin int
	U      string // identity term (sort U) for comparisons of unknown pointers
	IDU    bool   // identity is U (value obtained from an interface by type assertion)
}

type VStruct struct{ F []Val }
type VTuple struct{ F []Val }

// VIface is an interface value. U is its identity; it is nil iff U = nil_iface.
type VIface struct {
	U        string
	Concrete types.Type // known dynamic type, or nil
	Val      Val        // known dynamic value, or nil
}

// VOpaque is a value of a type the semantics does not look into.
type VOpaque struct{ T string }

// VFunc is a known function value.
type VFunc struct {
	Fn       interface{} // *ssa.Function
	Bindings []Val
	Recv     Val // bound method receiver
}

type Obj struct {
	ID   int
	Typ  types.Type
	Name string
	Sym  string
	// Local non-escaping allocation?
	Local bool
}

type ArrObj struct {
	ID   int
	Elem types.Type
	Sym  string
	// Fresh: allocated by the code under analysis (make, append, literals), as
	// opposed to memory that existed when the function was entered
	Fresh bool
}

// writeRec: a write by the function body (or by a callee's modifies clause)
type writeRec struct {
	obj  *Obj
	arr  *ArrObj
	path []PathElem
	what string
}

// ArrState is the content of a backing array at one point of a path.
type ArrState struct {
	C     Content        // scalar elements
	Elems map[string]Val // composite elements, by index term (copy on write)
	Ver   string         // identity of composite content (sort U)
	Base  string         // name stem of the functions giving the scalar leaves of unwritten elements
}

// Content is functional array content with scalar elements.
type Content interface {
	Sel(idx string) string
	ID() string
	Width() int
}

type baseContent struct {
	fn string // UF symbol BV64 -> BVw
	id string
	w  int
}

func (c baseContent) Sel(i string) string { return app(c.fn, i) }
func (c baseContent) ID() string          { return c.id }
func (c baseContent) Width() int          { return c.w }

type zeroContent struct{ w int }

func (c zeroContent) Sel(string) string { return bvLit(0, c.w) }
func (c zeroContent) ID() string        { return fmt.Sprintf("c_zero%d", c.w) }
func (c zeroContent) Width() int        { return c.w }

type constContent struct {
	b  []byte
	id string
	fn string
}

func (c constContent) Sel(i string) string {
	if v, ok := litVal(i); ok {
		if v < uint64(len(c.b)) {
			return bvLit(uint64(c.b[v]), 8)
		}
		return bvLit(0, 8)
	}
	if len(c.b) <= 48 {
		t := bvLit(0, 8)
		for k := len(c.b) - 1; k >= 0; k-- {
			t = mkIte(mkEq(i, bvLit(uint64(k), 64)), bvLit(uint64(c.b[k]), 8), t)
		}
		return t
	}
	return app(c.fn, i)
}
func (c constContent) ID() string { return c.id }
func (c constContent) Width() int { return 8 }

type storeContent struct {
	base     Content
	idx, val string
	id       string
}

func (c storeContent) Sel(i string) string {
	return mkIte(mkEq(i, c.idx), c.val, c.base.Sel(i))
}
func (c storeContent) ID() string { return c.id }
func (c storeContent) Width() int { return c.base.Width() }

// copyContent: indices in [dstOff, dstOff+n) read src[srcOff + i - dstOff].
type copyContent struct {
	dst            Content
	dstOff         string
	src            Content
	srcOff, n      string
	id             string
}

func (c copyContent) Sel(i string) string {
	rel := bvSub(i, c.dstOff)
	in := app("bvult", rel, c.n)
	if v, ok := litVal(rel); ok {
		if n, ok2 := litVal(c.n); ok2 {
			if v < n {
				in = "true"
			} else {
				in = "false"
			}
		}
	}
	return mkIte(in, c.src.Sel(bvAdd(c.srcOff, rel)), c.dst.Sel(i))
}
func (c copyContent) ID() string { return c.id }
func (c copyContent) Width() int { return c.dst.Width() }

func bvAdd(a, b string) string {
	va, oka := litVal(a)
	vb, okb := litVal(b)
	if oka && okb {
		return bvLit(va+vb, 64)
	}
	if oka && va == 0 {
		return b
	}
	if okb && vb == 0 {
		return a
	}
	return app("bvadd", a, b)
}

func bvSub(a, b string) string {
	va, oka := litVal(a)
	vb, okb := litVal(b)
	if oka && okb {
		return bvLit(va-vb, 64)
	}
	if okb && vb == 0 {
		return a
	}
	if a == b {
		return bvLit(0, 64)
	}
	return app("bvsub", a, b)
}

// ---------------------------------------------------------------------------

// State is the per-path store.
type State struct {
	mem  map[*Obj]Val
	arrs map[*ArrObj]ArrState
	pc   []string
	// events: calls made on this path (for evidence / ghost reasoning)
	trace []string
	fs    map[int]*FState
	ghost map[string]string // ghost field "name|identity term" -> value (sort U)
	writes []writeRec       // frame log
	logW   bool             // log havoc as writes (inside a callee's modifies clause)
	infeasible bool         // the path condition is syntactically contradictory: nothing on this path needs proof
	sites []string          // callees (and pseudo-callees) whose sites this path has passed, in order (everyiter)
	mapEpoch int            // bumped by every map update and every impure call: map lookups are uninterpreted in (map, epoch, key)
}

func newState() *State {
	return &State{mem: map[*Obj]Val{}, arrs: map[*ArrObj]ArrState{}}
}

func (s *State) clone() *State {
	n := &State{mem: make(map[*Obj]Val, len(s.mem)), arrs: make(map[*ArrObj]ArrState, len(s.arrs))}
	for k, v := range s.mem {
		n.mem[k] = v
	}
	for k, v := range s.arrs {
		n.arrs[k] = v
	}
	n.pc = s.pc[:len(s.pc):len(s.pc)]
	n.mapEpoch = s.mapEpoch
	n.infeasible = s.infeasible
	n.trace = s.trace[:len(s.trace):len(s.trace)]
	n.sites = s.sites[:len(s.sites):len(s.sites)]
	if s.fs != nil {
		n.fs = cloneFS(s.fs)
	}
	n.writes = s.writes[:len(s.writes):len(s.writes)]
	if s.ghost != nil {
		n.ghost = make(map[string]string, len(s.ghost))
		for k, v := range s.ghost {
			n.ghost[k] = v
		}
	}
	return n
}

func (s *State) assume(t string) {
	if t == "true" {
		return
	}
	if t == "false" {
		s.infeasible = true
	} else if !s.infeasible {
		// syntactic pruning: a literal and its negation on the same path
		neg := mkNot(t)
		lhs, lit := eqLiteral(t)
		for _, a := range s.pc {
			if a == neg {
				s.infeasible = true
				break
			}
			if lit != "" {
				// the same term equal to two different constants (switch cases)
				if l2, c2 := eqLiteral(a); c2 != "" && l2 == lhs && c2 != lit {
					s.infeasible = true
					break
				}
			}
		}
	}
	s.pc = append(s.pc, t)
}

// eqLiteral: for "(= X (_ bvN W))" returns (X, literal); else ("", "").
func eqLiteral(t string) (string, string) {
	if !strings.HasPrefix(t, "(= ") || !strings.HasSuffix(t, "))") {
		return "", ""
	}
	i := strings.LastIndex(t, " (_ bv")
	if i < 0 {
		return "", ""
	}
	lit := t[i+1 : len(t)-1]
	if strings.Count(lit, "(") != 1 || strings.Count(lit, ")") != 1 {
		return "", ""
	}
	lhs := t[3:i]
	if !balancedOne(lhs) {
		return "", ""
	}
	return lhs, lit
}

// ---------------------------------------------------------------------------

// World creates symbols and objects for one function run.
type World struct {
	st     *Symtab
	nobj   int
	sizes  types.Sizes
	notes  map[string]int // abstraction rows hit
	consts map[string]constContent
	memo   map[string]memoEntry // lazily created initial contents, shared by all states of a run
	initialContent bool          // creating the entry-state content of an object / a parameter (not a havoc)
	ghostMutable []string        // mutable ghost fields (spec ghost)
	ghostConst   map[string]bool // immutable ghost fields (spec ghostconst)
}

type memoEntry struct {
	v       Val
	assumes []string
	arrs    map[*ArrObj]ArrState
}

func newWorld() *World {
	w := &World{st: newSymtab(), sizes: types.SizesFor("gc", "amd64"), notes: map[string]int{}, consts: map[string]constContent{}, memo: map[string]memoEntry{}}
	w.st.declare("nil_iface", nil, sortU)
	w.st.declare("u_bytes", []string{sortU, bvSort(64), bvSort(64)}, sortU)
	w.st.declare("u_slice", []string{sortU, bvSort(64), bvSort(64)}, sortU)
	w.st.declare("u_bool", []string{sortBool}, sortU)
	w.st.declare("u_cons", []string{sortU, sortU}, sortU)
	w.st.declare("u_nil", nil, sortU)
	w.st.declare("u_nilptr", nil, sortU)
	w.st.declare("u_fld", []string{sortU, bvSort(64)}, sortU)
	w.st.declare("c_upd", []string{sortU, bvSort(64), sortU}, sortU)
	w.st.declare("c_copy", []string{sortU, bvSort(64), sortU, bvSort(64), bvSort(64)}, sortU)
	for _, k := range []int{8, 16, 32, 64} {
		w.st.declare(fmt.Sprintf("u_bv%d", k), []string{bvSort(k)}, sortU)
		w.st.declare(fmt.Sprintf("c_zero%d", k), nil, sortU)
	}
	return w
}

func (w *World) note(s string) { w.notes[s]++ }

func (w *World) newObj(t types.Type, name string) *Obj {
	w.nobj++
	o := &Obj{ID: w.nobj, Typ: t, Name: name}
	o.Sym = w.st.fresh("obj_"+name, sortU)
	return o
}

func (w *World) newArr(elem types.Type, name string) *ArrObj {
	w.nobj++
	a := &ArrObj{ID: w.nobj, Elem: elem, Fresh: true}
	a.Sym = w.st.fresh("arr_"+name, sortU)
	return a
}

func (w *World) freshBase(width int, name string) Content {
	fn := w.st.fresh("a_"+name, "")
	// redeclare as a function BV64 -> BVw
	w.st.mu.Lock()
	w.st.decl[fn] = fmt.Sprintf("(declare-fun %s (%s) %s)", fn, bvSort(64), bvSort(width))
	w.st.mu.Unlock()
	id := w.st.fresh("cid_"+name, sortU)
	return baseContent{fn: fn, id: id, w: width}
}

func (w *World) constStr(s string) constContent {
	if c, ok := w.consts[s]; ok {
		return c
	}
	h := fnv.New64a()
	h.Write([]byte(s))
	id := fmt.Sprintf("c_const_%x", h.Sum64())
	w.st.declare(id, nil, sortU)
	fn := id + "_f"
	w.st.declare(fn, []string{bvSort(64)}, bvSort(8))
	c := constContent{b: []byte(s), id: id, fn: fn}
	w.consts[s] = c
	return c
}

func (w *World) freshArrState(elem types.Type, name string) ArrState {
	if wd, ok := scalarWidth(elem); ok {
		return ArrState{C: w.freshBase(wd, name)}
	}
	w.nobj++
	return ArrState{Ver: w.st.fresh("ver_"+name, sortU), Base: fmt.Sprintf("e%d_%s", w.nobj, sanitize(name))}
}

func (w *World) zeroArrState(elem types.Type) ArrState {
	if wd, ok := scalarWidth(elem); ok {
		return ArrState{C: zeroContent{w: wd}}
	}
	return ArrState{Ver: "u_nil", Elems: map[string]Val{"*zero*": nil}}
}

// scalarWidth: bit width if t is an integer (or bool-free scalar) type.
func scalarWidth(t types.Type) (int, bool) {
	b, ok := types.Unalias(t).Underlying().(*types.Basic)
	if !ok {
		return 0, false
	}
	switch b.Kind() {
	case types.Int8, types.Uint8:
		return 8, true
	case types.Int16, types.Uint16:
		return 16, true
	case types.Int32, types.Uint32:
		return 32, true
	case types.Int, types.Uint, types.Int64, types.Uint64, types.Uintptr, types.UntypedInt, types.UntypedRune:
		return 64, true
	}
	return 0, false
}

func isSigned(t types.Type) bool {
	b, ok := types.Unalias(t).Underlying().(*types.Basic)
	if !ok {
		return false
	}
	switch b.Kind() {
	case types.Int, types.Int8, types.Int16, types.Int32, types.Int64, types.UntypedInt, types.UntypedRune:
		return true
	}
	return false
}

func under(t types.Type) types.Type { return types.Unalias(t).Underlying() }

const maxLenBits = 62

// lenInvariant: 0 <= len <= cap < 2^62 (signed).
func lenInv(l, c string) string {
	lim := bvLit(1<<maxLenBits, 64)
	return mkAnd(app("bvsle", bvLit(0, 64), l), app("bvsle", l, c), app("bvslt", c, lim))
}

// fresh creates a symbolic value of type t. Assumptions about it (length
// invariants) are appended to st.pc.
func (w *World) fresh(s *State, t types.Type, name string, origin int) Val {
	switch tt := under(t).(type) {
	case *types.Basic:
		if wd, ok := scalarWidth(tt); ok {
			return VInt{T: w.st.fresh(name, bvSort(wd)), W: wd}
		}
		switch {
		case tt.Info()&types.IsBoolean != 0:
			return VBool{T: w.st.fresh(name, sortBool)}
		case tt.Info()&types.IsString != 0:
			l := w.st.fresh(name+"_len", bvSort(64))
			s.assume(lenInv(l, l))
			return VStr{C: w.freshBase(8, name), Off: bvLit(0, 64), Len: l}
		case tt.Kind() == types.UnsafePointer:
			return VOpaque{T: w.st.fresh(name, sortU)}
		}
		return VOpaque{T: w.st.fresh(name, sortU)}
	case *types.Pointer:
		p := VPtr{Root: w.newObj(tt.Elem(), name), Origin: origin, U: w.st.fresh(name+"_p", sortU)}
		p.Root.Local = origin == OrigCall
		switch origin {
		case OrigKnown:
			p.Nil = "false"
		default:
			p.Nil = w.st.fresh(name+"_isnil", sortBool)
		}
		return p
	case *types.Slice:
		l := w.st.fresh(name+"_len", bvSort(64))
		c := w.st.fresh(name+"_cap", bvSort(64))
		n := w.st.fresh(name+"_isnil", sortBool)
		s.assume(lenInv(l, c))
		s.assume(mkImp(n, mkEq(c, bvLit(0, 64))))
		a := w.newArr(tt.Elem(), name)
		a.Fresh = origin == OrigCall
		s.arrs[a] = w.freshArrState(tt.Elem(), name)
		return VSlice{A: a, Off: bvLit(0, 64), Len: l, Cap: c, Nil: n}
	case *types.Struct:
		f := make([]Val, tt.NumFields())
		for i := range f {
			f[i] = w.fresh(s, tt.Field(i).Type(), name+"."+tt.Field(i).Name(), origin)
		}
		return VStruct{F: f}
	case *types.Array:
		a := w.newArr(tt.Elem(), name)
		a.Fresh = origin == OrigCall || origin == OrigKnown
		s.arrs[a] = w.freshArrState(tt.Elem(), name)
		return VArrRef{A: a, N: tt.Len()}
	case *types.Interface:
		return VIface{U: w.st.fresh(name, sortU)}
	case *types.Tuple:
		f := make([]Val, tt.Len())
		for i := range f {
			f[i] = w.freshReg(s, tt.At(i).Type(), fmt.Sprintf("%s.%d", name, i), origin)
		}
		return VTuple{F: f}
	case *types.Map:
		// a map that already existed (parameter, memory) was not made by this
		// function; what a callee returns may be new
		u := w.st.fresh(name, sortU)
		if w.initialContent {
			s.assume(mkNot(app(w.st.declare("alloc_here", []string{sortU}, sortBool), u)))
		}
		return VOpaque{T: u}
	}
	return VOpaque{T: w.st.fresh(name, sortU)}
}

// freshReg creates a fresh register value (arrays are snapshots, not refs).
func (w *World) freshReg(s *State, t types.Type, name string, origin int) Val {
	return w.snapshot(s, w.fresh(s, t, name, origin))
}

// zero value (register form).
func (w *World) zero(s *State, t types.Type) Val {
	switch tt := under(t).(type) {
	case *types.Basic:
		if wd, ok := scalarWidth(tt); ok {
			return VInt{T: bvLit(0, wd), W: wd}
		}
		switch {
		case tt.Info()&types.IsBoolean != 0:
			return VBool{T: "false"}
		case tt.Info()&types.IsString != 0:
			return VStr{C: w.constStr(""), Off: bvLit(0, 64), Len: bvLit(0, 64)}
		}
		return VOpaque{T: w.zeroU(t)}
	case *types.Pointer:
		return VPtr{Nil: "true", Origin: OrigKnown, U: "u_nilptr"}
	case *types.Slice:
		a := w.newArr(tt.Elem(), "nil")
		s.arrs[a] = w.zeroArrState(tt.Elem())
		z := bvLit(0, 64)
		return VSlice{A: a, Off: z, Len: z, Cap: z, Nil: "true"}
	case *types.Struct:
		f := make([]Val, tt.NumFields())
		for i := range f {
			f[i] = w.zero(s, tt.Field(i).Type())
		}
		return VStruct{F: f}
	case *types.Array:
		return VArrVal{S: w.zeroArrState(tt.Elem()), N: tt.Len(), E: tt.Elem()}
	case *types.Interface:
		return VIface{U: "nil_iface"}
	case *types.Tuple:
		f := make([]Val, tt.Len())
		for i := range f {
			f[i] = w.zero(s, tt.At(i).Type())
		}
		return VTuple{F: f}
	}
	return VOpaque{T: w.zeroU(t)}
}

func (w *World) zeroU(t types.Type) string {
	name := "zero_" + sanitize(types.TypeString(t, func(p *types.Package) string { return p.Name() }))
	return w.st.declare(name, nil, sortU)
}

// snapshot converts an in-memory value into a register value (arrays by value).
func (w *World) snapshot(s *State, v Val) Val {
	switch x := v.(type) {
	case VArrRef:
		return VArrVal{S: s.arrs[x.A], N: x.N, E: x.A.Elem}
	case VStruct:
		var f []Val
		for i, e := range x.F {
			ne := w.snapshot(s, e)
			if f == nil && !sameVal(ne, e) {
				f = make([]Val, len(x.F))
				copy(f, x.F[:i])
			}
			if f != nil {
				f[i] = ne
			}
		}
		if f == nil {
			return x
		}
		return VStruct{F: f}
	case VTuple:
		f := make([]Val, len(x.F))
		for i, e := range x.F {
			f[i] = w.snapshot(s, e)
		}
		return VTuple{F: f}
	}
	return v
}

func sameVal(a, b Val) bool {
	switch a.(type) {
	case VArrRef:
		_, ok := b.(VArrRef)
		return ok
	case VArrVal:
		return false
	}
	return true
}

// toMem converts a register value into memory form: array values get storage.
// old is the value currently in memory (its array storage is reused so that
// slices aliasing it stay aliased).
func (w *World) toMem(s *State, v Val, old Val) Val {
	switch x := v.(type) {
	case VArrVal:
		if o, ok := old.(VArrRef); ok {
			s.arrs[o.A] = x.S
			return o
		}
		a := w.newArr(x.E, "arr")
		s.arrs[a] = x.S
		return VArrRef{A: a, N: x.N}
	case VStruct:
		o, _ := old.(VStruct)
		f := make([]Val, len(x.F))
		for i, e := range x.F {
			var oe Val
			if i < len(o.F) {
				oe = o.F[i]
			}
			f[i] = w.toMem(s, e, oe)
		}
		return VStruct{F: f}
	}
	return v
}

// ---------------------------------------------------------------------------
// Loads and stores.

func (w *World) objVal(s *State, o *Obj) Val {
	if v, ok := s.mem[o]; ok {
		return v
	}
	// The initial content of an object is created once per run and shared by
	// every state in which the object has not been written or havocked, so that
	// a state and its clones (pre-states of calls) agree on it.
	key := fmt.Sprintf("obj%d", o.ID)
	v := w.memoized(s, key, func(tmp *State) Val {
		w.initialContent = true
		defer func() { w.initialContent = false }()
		return w.fresh(tmp, o.Typ, o.Name, OrigMem)
	})
	s.mem[o] = v
	return v
}

// memoized creates (once) or re-uses a lazily initialised value; the
// assumptions and backing arrays created with it are replayed into s.
func (w *World) memoized(s *State, key string, mk func(tmp *State) Val) Val {
	me, ok := w.memo[key]
	if !ok {
		tmp := newState()
		v := mk(tmp)
		me = memoEntry{v: v, assumes: tmp.pc, arrs: tmp.arrs}
		w.memo[key] = me
	}
	for _, a := range me.assumes {
		s.assume(a)
	}
	for a, as := range me.arrs {
		if _, has := s.arrs[a]; !has {
			s.arrs[a] = as
		}
	}
	return me.v
}

// elemVal returns the in-memory value of a composite array element.
func (w *World) elemVal(s *State, a *ArrObj, idx string) Val {
	as := s.arrs[a]
	if v, ok := as.Elems[idx]; ok && v != nil {
		return v
	}
	var v Val
	if _, zero := as.Elems["*zero*"]; zero {
		v = w.toMem(s, w.zero(s, a.Elem), nil)
	} else if as.Base != "" {
		v = w.memoized(s, "elem|"+as.Base+"|"+idx, func(tmp *State) Val { return w.freshElem(tmp, as.Base, a.Elem, idx, "") })
	} else {
		v = w.fresh(s, a.Elem, fmt.Sprintf("%s_el", a.Sym), OrigMem)
	}
	ne := make(map[string]Val, len(as.Elems)+1)
	for k, e := range as.Elems {
		ne[k] = e
	}
	ne[idx] = v
	as.Elems = ne
	s.arrs[a] = as
	return v
}

func typeAt(t types.Type, path []PathElem) types.Type {
	for _, pe := range path {
		switch tt := under(t).(type) {
		case *types.Struct:
			t = tt.Field(pe.Field).Type()
		case *types.Array:
			t = tt.Elem()
		}
	}
	return t
}

// load reads through a pointer; result is in register form.
func (w *World) load(s *State, p VPtr) Val {
	if p.Root == nil && p.Arr == nil {
		w.note("load through unknown pointer")
		return nil
	}
	if p.Arr != nil {
		if _, ok := scalarWidth(p.Arr.Elem); ok && len(p.Path) == 0 {
			wd, _ := scalarWidth(p.Arr.Elem)
			return VInt{T: s.arrs[p.Arr].C.Sel(p.Idx), W: wd}
		}
		if isBoolType(p.Arr.Elem) && len(p.Path) == 0 {
			// bool arrays: composite path
		}
		v := w.elemVal(s, p.Arr, p.Idx)
		return w.snapshot(s, w.navLoad(s, v, p.Path))
	}
	v := w.objVal(s, p.Root)
	return w.snapshot(s, w.navLoad(s, v, p.Path))
}

func isBoolType(t types.Type) bool {
	b, ok := under(t).(*types.Basic)
	return ok && b.Info()&types.IsBoolean != 0
}

func (w *World) navLoad(s *State, v Val, path []PathElem) Val {
	for _, pe := range path {
		switch x := v.(type) {
		case VStruct:
			v = x.F[pe.Field]
		case VArrRef:
			if wd, ok := scalarWidth(x.A.Elem); ok {
				v = VInt{T: s.arrs[x.A].C.Sel(pe.Idx), W: wd}
			} else {
				v = w.elemVal(s, x.A, pe.Idx)
			}
		default:
			w.note("navLoad through non-aggregate")
			return nil
		}
	}
	return v
}

// store writes v (register form) through p.
func (w *World) store(s *State, p VPtr, v Val) {
	if p.Root == nil && p.Arr == nil {
		w.note("store through unknown pointer")
		return
	}
	s.writes = append(s.writes[:len(s.writes):len(s.writes)], writeRec{obj: p.Root, arr: p.Arr, path: p.Path, what: "store"})
	if p.Arr != nil {
		if _, ok := scalarWidth(p.Arr.Elem); ok && len(p.Path) == 0 {
			iv, ok := v.(VInt)
			if !ok {
				return
			}
			as := s.arrs[p.Arr]
			as.C = w.mkStore(as.C, p.Idx, iv.T)
			s.arrs[p.Arr] = as
			return
		}
		old := w.elemVal(s, p.Arr, p.Idx)
		nv := w.navStore(s, old, p.Path, v)
		as := s.arrs[p.Arr]
		// A write at a symbolic index invalidates cached elements at other index terms.
		ne := map[string]Val{}
		if _, lit := litVal(p.Idx); lit {
			for k, e := range as.Elems {
				if _, l2 := litVal(k); l2 || k == "*zero*" {
					ne[k] = e
				}
			}
		}
		ne[p.Idx] = nv
		as.Elems = ne
		as.Ver = w.st.fresh("ver", sortU)
		s.arrs[p.Arr] = as
		return
	}
	old := w.objVal(s, p.Root)
	s.mem[p.Root] = w.navStore(s, old, p.Path, v)
}

func (w *World) mkStore(c Content, idx, val string) Content {
	id := app("c_upd", c.ID(), idx, w.foldInt(val, c.Width()))
	if len(id) > 300 {
		id = w.st.fresh("cid_upd", sortU)
	}
	return storeContent{base: c, idx: idx, val: val, id: id}
}

func (w *World) navStore(s *State, old Val, path []PathElem, v Val) Val {
	if len(path) == 0 {
		return w.toMem(s, v, old)
	}
	pe := path[0]
	switch x := old.(type) {
	case VStruct:
		f := make([]Val, len(x.F))
		copy(f, x.F)
		f[pe.Field] = w.navStore(s, x.F[pe.Field], path[1:], v)
		return VStruct{F: f}
	case VArrRef:
		if _, ok := scalarWidth(x.A.Elem); ok {
			if iv, ok := v.(VInt); ok {
				as := s.arrs[x.A]
				as.C = w.mkStore(as.C, pe.Idx, iv.T)
				s.arrs[x.A] = as
			}
			return x
		}
		oe := w.elemVal(s, x.A, pe.Idx)
		nv := w.navStore(s, oe, path[1:], v)
		as := s.arrs[x.A]
		ne := map[string]Val{}
		if _, lit := litVal(pe.Idx); lit {
			for k, e := range as.Elems {
				if _, l2 := litVal(k); l2 || k == "*zero*" {
					ne[k] = e
				}
			}
		}
		ne[pe.Idx] = nv
		as.Elems = ne
		as.Ver = w.st.fresh("ver", sortU)
		s.arrs[x.A] = as
		return x
	}
	w.note("navStore through non-aggregate")
	return old
}

// ---------------------------------------------------------------------------
// Havoc.

// havocVal returns a fresh in-memory value of the same shape, keeping array
// storage identity (so outstanding slices see the havoc).
func (w *World) havocMem(s *State, v Val, t types.Type, name string) Val {
	switch x := v.(type) {
	case VArrRef:
		s.arrs[x.A] = w.freshArrState(x.A.Elem, name)
		return x
	case VStruct:
		st, ok := under(t).(*types.Struct)
		if !ok {
			return w.fresh(s, t, name, OrigMem)
		}
		f := make([]Val, len(x.F))
		for i, e := range x.F {
			f[i] = w.havocMem(s, e, st.Field(i).Type(), name+"."+st.Field(i).Name())
		}
		return VStruct{F: f}
	}
	return w.fresh(s, t, name, OrigMem)
}

// havocReach havocs everything reachable from v through pointers and slices.
func (w *World) havocReach(s *State, v Val, seen map[interface{}]bool) {
	switch x := v.(type) {
	case VPtr:
		if x.Arr != nil {
			w.havocArr(s, x.Arr, seen)
			return
		}
		if x.Root == nil || seen[x.Root] {
			return
		}
		seen[x.Root] = true
		if s.logW {
			s.writes = append(s.writes[:len(s.writes):len(s.writes)], writeRec{obj: x.Root, path: x.Path, what: "callee modifies"})
		}
		cur, ok := s.mem[x.Root]
		if !ok && len(x.Path) > 0 {
			// only a part of the object is modified: materialise its (shared,
			// lazily created) initial contents first, so the rest is retained
			w.objVal(s, x.Root)
			cur, ok = s.mem[x.Root]
		}
		if !ok {
			// never read in this state: give it fresh contents now (the shared
			// initial contents no longer apply)
			s.mem[x.Root] = w.fresh(s, x.Root.Typ, x.Root.Name, OrigMem)
			return
		}
		if len(x.Path) == 0 {
			w.reachInside(s, cur, seen)
			s.mem[x.Root] = w.havocMem(s, cur, x.Root.Typ, x.Root.Name)
		} else {
			sub := w.navLoad(s, cur, x.Path)
			if sub == nil {
				delete(s.mem, x.Root)
				return
			}
			w.reachInside(s, sub, seen)
			t := typeAt(x.Root.Typ, x.Path)
			nv := w.havocMem(s, sub, t, x.Root.Name)
			s.mem[x.Root] = w.navStoreMem(cur, x.Path, nv)
			// allow re-visit of other sub-paths
			delete(seen, x.Root)
		}
	case VSlice:
		w.havocArr(s, x.A, seen)
	case VArrRef:
		w.havocArr(s, x.A, seen)
	case VStruct:
		for _, e := range x.F {
			w.havocReach(s, e, seen)
		}
	case VTuple:
		for _, e := range x.F {
			w.havocReach(s, e, seen)
		}
	case VIface:
		if x.Val != nil {
			w.havocReach(s, x.Val, seen)
		}
		w.ghostHavoc(s, x.U)
	case VFunc:
		for _, b := range x.Bindings {
			w.havocReach(s, b, seen)
		}
		if x.Recv != nil {
			w.havocReach(s, x.Recv, seen)
		}
	}
}

func (w *World) navStoreMem(old Val, path []PathElem, nv Val) Val {
	if len(path) == 0 {
		return nv
	}
	if x, ok := old.(VStruct); ok {
		f := make([]Val, len(x.F))
		copy(f, x.F)
		f[path[0].Field] = w.navStoreMem(x.F[path[0].Field], path[1:], nv)
		return VStruct{F: f}
	}
	return old
}

func (w *World) reachInside(s *State, v Val, seen map[interface{}]bool) {
	switch x := v.(type) {
	case VStruct:
		for _, e := range x.F {
			w.reachInside(s, e, seen)
		}
	case VPtr, VSlice, VIface, VFunc, VArrRef:
		w.havocReach(s, x, seen)
	}
}

func (w *World) havocArr(s *State, a *ArrObj, seen map[interface{}]bool) {
	if a == nil || seen[a] {
		return
	}
	seen[a] = true
	if s.logW {
		s.writes = append(s.writes[:len(s.writes):len(s.writes)], writeRec{arr: a, what: "callee modifies"})
	}
	as := s.arrs[a]
	for _, e := range as.Elems {
		if e != nil {
			w.reachInside(s, e, seen)
		}
	}
	s.arrs[a] = w.freshArrState(a.Elem, a.Sym)
}

// ---------------------------------------------------------------------------
// Folding values to the universal sort U (for uninterpreted spec functions).

func (w *World) foldInt(t string, wd int) string {
	switch wd {
	case 8, 16, 32, 64:
		return app(fmt.Sprintf("u_bv%d", wd), t)
	}
	return app("u_bv64", app("(_ zero_extend "+fmt.Sprint(64-wd)+")", t))
}

func (w *World) fold(s *State, v Val) string {
	switch x := v.(type) {
	case VInt:
		return w.foldInt(x.T, x.W)
	case VBool:
		return app("u_bool", x.T)
	case VStr:
		return app("u_bytes", x.C.ID(), x.Off, x.Len)
	case VSlice:
		as := s.arrs[x.A]
		if as.C != nil {
			return app("u_bytes", as.C.ID(), x.Off, x.Len)
		}
		return app("u_slice", w.arrVer(s, x.A), x.Off, x.Len)
	case VArrRef:
		as := s.arrs[x.A]
		if as.C != nil {
			return app("u_bytes", as.C.ID(), bvLit(0, 64), bvLit(uint64(x.N), 64))
		}
		return app("u_slice", w.arrVer(s, x.A), bvLit(0, 64), bvLit(uint64(x.N), 64))
	case VArrVal:
		if x.S.C != nil {
			return app("u_bytes", x.S.C.ID(), bvLit(0, 64), bvLit(uint64(x.N), 64))
		}
		ver := x.S.Ver
		if ver == "" {
			ver = "u_nil"
		}
		return app("u_slice", ver, bvLit(0, 64), bvLit(uint64(x.N), 64))
	case VStruct:
		t := "u_nil"
		for i := len(x.F) - 1; i >= 0; i-- {
			t = app("u_cons", w.fold(s, x.F[i]), t)
		}
		return t
	case VTuple:
		t := "u_nil"
		for i := len(x.F) - 1; i >= 0; i-- {
			t = app("u_cons", w.fold(s, x.F[i]), t)
		}
		return t
	case VPtr:
		return w.ptrID(x)
	case VIface:
		return x.U
	case VOpaque:
		return x.T
	case VFunc:
		t := "u_nil"
		for i := len(x.Bindings) - 1; i >= 0; i-- {
			t = app("u_cons", w.fold(s, x.Bindings[i]), t)
		}
		return t
	case nil:
		return "u_nil"
	}
	return "u_nil"
}

func (w *World) arrVer(s *State, a *ArrObj) string {
	as := s.arrs[a]
	if as.Ver == "" {
		as.Ver = w.st.fresh("ver", sortU)
		s.arrs[a] = as
	}
	return as.Ver
}

func (w *World) ptrID(p VPtr) string {
	var id string
	if p.IDU && p.U != "" && len(p.Path) == 0 {
		return p.U
	}
	switch {
	case p.Arr != nil:
		id = app("u_fld", p.Arr.Sym, p.Idx)
	case p.Root != nil:
		id = p.Root.Sym
	default:
		if p.U != "" {
			return p.U
		}
		return "u_nilptr"
	}
	for _, pe := range p.Path {
		if pe.Idx != "" {
			id = app("u_fld", id, pe.Idx)
		} else {
			id = app("u_fld", id, bvLit(uint64(pe.Field)+1000, 64))
		}
	}
	return mkIte(p.Nil, "u_nilptr", id)
}

func describe(v Val) string {
	switch x := v.(type) {
	case VInt:
		return x.T
	case VBool:
		return x.T
	case VStr:
		return "str(len=" + x.Len + ")"
	case VSlice:
		return "slice(len=" + x.Len + ")"
	case VPtr:
		return "ptr"
	case VStruct:
		var p []string
		for _, e := range x.F {
			p = append(p, describe(e))
		}
		return "{" + strings.Join(p, ",") + "}"
	case VIface:
		return "iface(" + x.U + ")"
	case VOpaque:
		return x.T
	}
	return fmt.Sprintf("%T", v)
}

// freshElem creates the (in-memory) value of an unwritten composite array
// element: scalar leaves are applications of per-array functions to the index,
// so that facts quantified over indices connect to concrete reads.
func (w *World) freshElem(s *State, base string, t types.Type, idx, path string) Val {
	uf := func(sort string) string {
		name := "uf_" + base + path
		w.st.declare(name, []string{bvSort(64)}, sort)
		return app(name, idx)
	}
	switch tt := under(t).(type) {
	case *types.Basic:
		if wd, ok := scalarWidth(tt); ok {
			return VInt{T: uf(bvSort(wd)), W: wd}
		}
		switch {
		case tt.Info()&types.IsBoolean != 0:
			return VBool{T: uf(sortBool)}
		case tt.Info()&types.IsString != 0:
			l := uf(bvSort(64))
			s.assume(lenInv(l, l))
			return VStr{C: w.freshBase(8, base+path), Off: bvLit(0, 64), Len: l}
		}
	case *types.Pointer:
		p := VPtr{Root: w.newObj(tt.Elem(), base+path), Origin: OrigMem, U: w.st.fresh(base+path+"_p", sortU)}
		name := "uf_" + base + path + "_isnil"
		w.st.declare(name, []string{bvSort(64)}, sortBool)
		p.Nil = app(name, idx)
		return p
	case *types.Slice:
		lname, cname, nname := "uf_"+base+path+"_len", "uf_"+base+path+"_cap", "uf_"+base+path+"_isnil"
		w.st.declare(lname, []string{bvSort(64)}, bvSort(64))
		w.st.declare(cname, []string{bvSort(64)}, bvSort(64))
		w.st.declare(nname, []string{bvSort(64)}, sortBool)
		l, c, n := app(lname, idx), app(cname, idx), app(nname, idx)
		s.assume(lenInv(l, c))
		s.assume(mkImp(n, mkEq(c, bvLit(0, 64))))
		a := w.newArr(tt.Elem(), base+path)
		a.Fresh = false
		s.arrs[a] = w.freshArrState(tt.Elem(), base+path)
		return VSlice{A: a, Off: bvLit(0, 64), Len: l, Cap: c, Nil: n}
	case *types.Struct:
		f := make([]Val, tt.NumFields())
		for i := range f {
			f[i] = w.freshElem(s, base, tt.Field(i).Type(), idx, path+"."+tt.Field(i).Name())
		}
		return VStruct{F: f}
	}
	return w.fresh(s, t, base+path, OrigMem)
}

// Ghost fields: specification-only state attached to an identity (an
// interface value, a pointer): e.g. the bytes absorbed by a hash.Hash.
func (w *World) ghostGet(s *State, field, id string) string {
	if v, ok := s.ghost[field+"|"+id]; ok {
		return v
	}
	fn := w.st.declare("gf_"+field, []string{sortU}, sortU)
	return app(fn, id)
}

func (w *World) ghostSet(s *State, field, id, val string) {
	if s.ghost == nil {
		s.ghost = map[string]string{}
	}
	s.ghost[field+"|"+id] = val
}

// ghostHavoc: the object with this identity may have been changed by a callee:
// every mutable ghost field of it becomes unknown (also those never assigned on
// this path, which would otherwise read as the stable entry value). Ghost
// fields declared "spec ghostconst" are properties fixed at creation (the kind
// of a hash) and survive.
func (w *World) ghostHavoc(s *State, id string) {
	if s.ghost == nil {
		s.ghost = map[string]string{}
	}
	for _, f := range w.ghostMutable {
		s.ghost[f+"|"+id] = w.st.fresh("gh", sortU)
	}
	for k := range s.ghost {
		if strings.HasSuffix(k, "|"+id) {
			f := k[:len(k)-len(id)-1]
			if !w.ghostConst[f] {
				s.ghost[k] = w.st.fresh("gh", sortU)
			}
		}
	}
}

// typeConst: the constant standing for a concrete Go type (by its printed
// name, spaces removed); distinct names are distinct constants.
func (w *World) typeConst(st *State, name string) string {
	name = strings.ReplaceAll(name, " ", "")
	h := fnv.New64a()
	h.Write([]byte(name))
	tc := w.st.declare(fmt.Sprintf("type_%s_%04x", sanitize(name), h.Sum64()&0xffff), nil, sortU)
	tid := w.st.declare("type_id", []string{sortU}, bvSort(64))
	ax := mkEq(app(tid, tc), bvLit(h.Sum64(), 64))
	for _, a := range st.pc {
		if a == ax {
			return tc
		}
	}
	st.assume(ax)
	return tc
}
