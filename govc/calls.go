package main

// Calls: builtins, contracts at call sites (callee's contract, not its body),
// inlining of helpers, havoc for everything else; deferred calls.

import (
	"os"
	"fmt"
	"go/ast"
	"go/parser"
	"go/types"
	"strings"

	"golang.org/x/tools/go/ssa"
)

func resultVal(rs *types.Tuple, vals []Val) Val {
	switch rs.Len() {
	case 0:
		return nil
	case 1:
		if len(vals) > 0 {
			return vals[0]
		}
		return nil
	}
	return VTuple{F: vals}
}

func (ex *Exec) inModule(fn *ssa.Function) bool {
	if fn.Pkg == nil {
		if fn.Parent() != nil {
			return ex.inModule(fn.Parent())
		}
		if o := fn.Origin(); o != nil {
			return ex.inModule(o)
		}
		return false
	}
	return strings.HasPrefix(fn.Pkg.Pkg.Path(), "github.com/fido-device-onboard/go-fdo")
}

func (ex *Exec) onStack(fn *ssa.Function) bool {
	for _, s := range ex.stack {
		if s == fn {
			return true
		}
	}
	return false
}

func instrCount(fn *ssa.Function) int {
	n := 0
	for _, b := range fn.Blocks {
		for _, in := range b.Instrs {
			if _, ok := in.(*ssa.DebugRef); !ok {
				n++
			}
		}
	}
	return n
}

// call executes a call instruction. It returns true if a continuation took
// over the rest of the block (inlined callee).
func (ex *Exec) call(f *Frame, st *State, x *ssa.Call, b *ssa.BasicBlock, i int, prev *ssa.BasicBlock) bool {
	w := ex.w
	c := x.Common()
	c0 := c
	if bi, ok := c.Value.(*ssa.Builtin); ok {
		f.regs[x] = ex.builtin(f, st, x, bi)
		return false
	}
	var args []Val
	var callee *ssa.Function
	var bindings []Val
	if c.IsInvoke() {
		args = append(args, ex.val(f, st, c.Value))
	} else {
		switch fv := ex.val(f, st, c.Value).(type) {
		case VFunc:
			callee, _ = fv.Fn.(*ssa.Function)
			bindings = fv.Bindings
		}
		if sc := c.StaticCallee(); sc != nil {
			callee = sc
		}
	}
	for _, a := range c.Args {
		args = append(args, ex.val(f, st, a))
	}
	sig := c.Signature()
	name := ex.prog.calleeName(c)
	if callee != nil {
		name = ex.prog.funcName(callee)
		if o := callee.Origin(); o != nil {
			callee = o
		}
	}
	ord := f.li.callOrd[x]
	con := ex.prog.CS.ByName[name]
	if con != nil && con.sweepOnly() {
		// a contract that only asks for the safety sweep of the function's own
		// body says nothing to callers: they treat the callee as if it had none
		con = nil
	}
	setRes := func(st2 *State, vals []Val) {
		if v := resultVal(sig.Results(), vals); v != nil {
			f.regs[x] = v
		} else {
			f.regs[x] = VTuple{}
		}
	}
	short := name
	if k := strings.LastIndex(short, "."); k >= 0 {
		short = short[k+1:]
	}
	st.sites = append(st.sites, name)
	if ex.callAsserts(f, st, x, name, ord, ex.paramBindings(callee, sig, c0.IsInvoke(), args), "") {
		return false
	}
	wantInline := false
	inlSweep := map[string]bool{}
	if callee != nil && len(callee.Blocks) > 0 && !ex.onStack(callee) && f.depth < 4 {
		if con != nil && con.Inline {
			wantInline = true
			inlSweep = con.Sweep
		} else if con == nil && !ex.prog.CS.isPure(name) && ex.inModule(callee) && len(ex.prog.loopInfo(callee).headers) == 0 && instrCount(callee) <= 100 && f.depth < 3 {
			wantInline = true
			// a helper without a contract is part of its caller: the caller's
			// safety sweep extends into it (in the caller's context) for the index,
			// slice, allocation and division classes. Not the nil class (a helper's
			// receiver and captured variables reach it through memory cells) and not
			// explicit panics (programming-error guards whose invariant is usually
			// established by a sibling helper that may not be inlined)
			inlSweep = map[string]bool{}
			for _, k := range []string{"bounds", "make", "div", "nooverflow"} {
				if f.sweep[k] {
					inlSweep[k] = true
				}
			}
		}
	}
	if os.Getenv("GOVC_DEBUG_INL") != "" && callee != nil && con == nil && ex.inModule(callee) {
		fmt.Fprintf(os.Stderr, "inl? %s instr=%d loops=%d inline=%v\n", name, instrCount(callee), len(ex.prog.loopInfo(callee).headers), wantInline)
	}
	if con != nil && !con.Inline {
		res := ex.applyContract(f, st, x, con, name, ord, callee, sig, args)
		setRes(st, res)
		return false
	}
	if wantInline {
		if con != nil {
			ex.checkRequires(f, st, x, con, name, ord, callee, sig, args)
		}
		ex.inlined[name]++
		nf := ex.newFrame(callee, f, f.depth+1, f.prefix+"#inl:"+short)
		nf.chain = f.chain + fmt.Sprintf("%p", x) + "/"
		nf.sweep = inlSweep
		nf.limit = f.limit
		for k, p := range callee.Params {
			if k < len(args) {
				nf.regs[p] = args[k]
				nf.params[p.Name()] = Binding{V: args[k], T: p.Type()}
			}
		}
		for k, fv := range callee.FreeVars {
			if k < len(bindings) {
				nf.regs[fv] = bindings[k]
			} else {
				nf.regs[fv] = w.freshReg(st, fv.Type(), fv.Name(), OrigKnown)
			}
		}
		ex.stack = append(ex.stack, callee)
		depth := len(ex.stack)
		nf.ret = func(st2 *State, vals []Val) {
			saved := ex.stack
			ex.stack = ex.stack[:depth-1]
			setRes(st2, vals)
			ex.runFrom(f, st2, b, i+1, prev)
			ex.stack = saved
		}
		ex.runFrom(nf, st, callee.Blocks[0], 0, nil)
		ex.stack = ex.stack[:depth-1]
		return true
	}
	// havoc
	ex.havocked[name]++
	pure := ex.prog.CS.isPure(name)
	if !pure {
		st.mapEpoch++
		seen := map[interface{}]bool{}
		for _, a := range args {
			w.havocReach(st, a, seen)
		}
		for _, bnd := range bindings {
			w.havocReach(st, bnd, seen)
		}
		if !c.IsInvoke() && callee == nil {
			w.havocReach(st, ex.val(f, st, c.Value), seen)
		}
	}
	var vals []Val
	for k := 0; k < sig.Results().Len(); k++ {
		vals = append(vals, w.freshReg(st, sig.Results().At(k).Type(), fmt.Sprintf("%s_r%d", short, k), OrigCall))
	}
	setRes(st, vals)
	return false
}

// callAsserts checks the unit's callassert clauses for the call site x of the
// callee `name` (also used for the pseudo-callee "chansend": channel sends).
// guard, when not empty, is the condition under which the site is taken (a send
// case of a select). It reports whether the unit was aborted by a contract error.
func (ex *Exec) callAsserts(f *Frame, st *State, x ssa.Instruction, name string, ord int, pbs map[string]Binding, guard string) bool {
	return ex.callAssertsAt(f, st, x, fmt.Sprintf("%p", x), name, ord, pbs, guard)
}

func (ex *Exec) callAssertsAt(f *Frame, st *State, x ssa.Instruction, site string, name string, ord int, pbs map[string]Binding, guard string) bool {
	if ex.con == nil || len(ex.con.CallAsserts) == 0 {
		return false
	}
	// release points are anchored on the ordinal of the call among the call
	// sites of the same callee across the unit's inline tree, so they also
	// fire inside inlined helpers; the callee is named by its last component
	// or by a qualified suffix
	siteKey := f.chain + site
	type casT struct {
		Clause
		pat string
		ord string
	}
	var cas []casT
	for _, key := range sortedKeys(ex.con.CallAsserts) {
		pat, ordS, ok := strings.Cut(key, "#")
		if !ok || !calleeMatches(pat, name) {
			continue
		}
		if ordS != "*" {
			n := ex.unitOrdinal(pat, siteKey)
			if n == 0 && f.depth == 0 {
				n = ord // dynamic callee not seen by the static numbering
			}
			if fmt.Sprint(n) != ordS {
				continue
			}
		}
		for _, c := range ex.con.CallAsserts[key] {
			cas = append(cas, casT{c, pat, ordS})
		}
	}
	imported := map[string]bool{}
	if f.fn.Pkg != nil {
		for _, ip := range f.fn.Pkg.Pkg.Imports() {
			imported[ip.Name()] = true
		}
	}
	imp := func(t string) string {
		if guard == "" {
			return t
		}
		return mkImp(guard, t)
	}
	for k, c := range cas {
		ec := ex.ectx(f, st)
		if f.depth > 0 && ex.root != nil {
			// names of the unit's own frame stay visible inside an extracted helper
			for k2, v2 := range ex.ectx(ex.root, st).vars {
				if _, own := ec.vars[k2]; !own {
					ec.vars[k2] = v2
				}
			}
		}
		for pn, pb := range pbs {
			// the caller's names win (a recursive call has the same parameter names),
			// and so do the packages the caller's package imports: a callee parameter
			// called "rand" must not hide crypto/rand.Reader in the assertion
			if imported[pn] {
				continue
			}
			if _, own := ec.vars[pn]; !own || strings.HasPrefix(pn, "arg") {
				ec.vars[pn] = pb
			}
		}
		lbl := c.Label
		if lbl == "" {
			lbl = fmt.Sprint(k + 1)
		}
		ordName := c.ord
		if ordName == "*" {
			if n := ex.unitOrdinal(c.pat, siteKey); n > 0 {
				ordName = fmt.Sprint(n)
			} else {
				ordName = fmt.Sprint(ord)
			}
		}
		t, err := ec.formula(c.Src)
		if err != nil && c.Optional {
			// as for optional ensures: "A ==> B" with B's values not (yet) existing at
			// this call requires A to be false here
			if parts := splitOp(c.Src, "==>"); len(parts) == 2 && strings.Contains(err.Error(), "unknown identifier") {
				if a, err2 := ec.formula(parts[0]); err2 == nil {
					ex.oblige(f, st, "assert", fmt.Sprintf("%s#assert:%s#%s#%s#nolocal", ex.name, c.pat, ordName, lbl), imp(mkNot(a)), x.Pos(),
						c.Src+"   [the consequent's values do not exist at this call: its antecedent must be false here]")
				}
			}
			continue
		}
		if err != nil {
			ex.aborted = fmt.Sprintf("contract error (%s): %v", c.Line, err)
			return true
		}
		ex.oblige(f, st, "assert", fmt.Sprintf("%s#assert:%s#%s#%s", ex.name, c.pat, ordName, lbl), imp(t), x.Pos(), c.Src)
	}
	return false
}

// paramBindings binds the callee's parameter names (and arg0..) to the arguments.
func (ex *Exec) paramBindings(callee *ssa.Function, sig *types.Signature, invoke bool, args []Val) map[string]Binding {
	vars := map[string]Binding{}
	if callee != nil && len(callee.Params) == len(args) {
		for k, p := range callee.Params {
			vars[p.Name()] = Binding{V: args[k], T: p.Type()}
			vars[fmt.Sprintf("arg%d", k)] = Binding{V: args[k], T: p.Type()}
		}
		return vars
	}
	k := 0
	if invoke || sig.Recv() != nil {
		if len(args) > 0 {
			var rt types.Type
			if sig.Recv() != nil {
				rt = sig.Recv().Type()
			}
			vars["recv"] = Binding{V: args[0], T: rt}
			vars["arg0"] = vars["recv"]
			k = 1
		}
	}
	ps := sig.Params()
	for j := 0; j < ps.Len() && k+j < len(args); j++ {
		bnd := Binding{V: args[k+j], T: ps.At(j).Type()}
		if n := ps.At(j).Name(); n != "" && n != "_" {
			vars[n] = bnd
		}
		vars[fmt.Sprintf("arg%d", k+j)] = bnd
	}
	return vars
}

func (ex *Exec) calleeCtx(f *Frame, st, old *State, callee *ssa.Function, vars map[string]Binding) *ExprCtx {
	var pkg *types.Package
	if callee != nil && callee.Pkg != nil {
		pkg = callee.Pkg.Pkg
	} else if f.fn.Pkg != nil {
		pkg = f.fn.Pkg.Pkg
	}
	return &ExprCtx{w: ex.w, cs: ex.prog.CS, st: st, old: old, vars: vars, pkg: pkg, fnName: ex.prog.funcName, global: ex.globalTV(f, st)}
}

func (ex *Exec) checkRequires(f *Frame, st *State, x ssa.Instruction, con *Contract, name string, ord int, callee *ssa.Function, sig *types.Signature, args []Val) map[string]Binding {
	invoke := false
	if ci, ok := x.(ssa.CallInstruction); ok {
		invoke = ci.Common().IsInvoke()
	}
	vars := ex.paramBindings(callee, sig, invoke, args)
	for k, pn := range con.ParamNames {
		if b, ok := vars[fmt.Sprintf("arg%d", k)]; ok && pn != "_" {
			vars[pn] = b
		}
	}
	ec := ex.calleeCtx(f, st, nil, callee, vars)
	short := name
	if k := strings.LastIndex(short, "."); k >= 0 {
		short = short[k+1:]
	}
	for k, c := range con.Requires {
		t, err := ec.formula(c.Src)
		if err != nil {
			ex.exprErrs = append(ex.exprErrs, fmt.Sprintf("%s: requires of %s at call in %s: %v", c.Line, name, ex.name, err))
			ex.aborted = fmt.Sprintf("contract error (%s): %v", c.Line, err)
			return vars
		}
		lbl := c.Label
		if lbl == "" {
			lbl = fmt.Sprint(k + 1)
		}
		ex.oblige(f, st, "pre", fmt.Sprintf("%s%s#pre:%s#%d#%s", ex.name, f.prefix, short, ord, lbl), t, x.Pos(), "precondition of "+name+": "+c.Src)
	}
	return vars
}

// applyContract: check requires, havoc the frame, assume ensures.
func (ex *Exec) applyContract(f *Frame, st *State, x ssa.Instruction, con *Contract, name string, ord int, callee *ssa.Function, sig *types.Signature, args []Val) []Val {
	w := ex.w
	ex.usedCons[name] = true
	vars := ex.checkRequires(f, st, x, con, name, ord, callee, sig, args)
	if ex.aborted != "" {
		return nil
	}
	pre := st.clone()
	// frame
	if !con.Pure {
		if !(con.HasMod && len(con.Modifies) == 0) {
			st.mapEpoch++
		}
		seen := map[interface{}]bool{}
		if con.HasMod {
			ec := ex.calleeCtx(f, st, nil, callee, vars)
			st.logW = true
			defer func() { st.logW = false }()
			for _, m := range con.Modifies {
				func() {
					defer func() {
						if r := recover(); r != nil {
							if ee, ok := r.(exprErr); ok {
								ex.aborted = fmt.Sprintf("contract error in modifies of %s: %s", name, ee.msg)
								return
							}
							panic(r)
						}
					}()
					if strings.HasPrefix(m, "reach(") && strings.HasSuffix(m, ")") {
						// everything reachable from the value (e.g. the object behind an
						// interface-typed field), not the location holding it
						m = m[len("reach(") : len(m)-1]
					} else if ex.havocLocation(st, ec, m) {
						return
					}
					tv := ec.evalSrc(m)
					w.havocReach(st, tv.V, seen)
				}()
			}
		} else {
			for _, a := range args {
				w.havocReach(st, a, seen)
			}
		}
	}
	short := name
	if k := strings.LastIndex(short, "."); k >= 0 {
		short = short[k+1:]
	}
	var vals []Val
	for k := 0; k < sig.Results().Len(); k++ {
		rv := w.freshReg(st, sig.Results().At(k).Type(), fmt.Sprintf("%s_r%d", short, k), OrigCall)
		if pv, ok := rv.(VPtr); ok && len(con.Ensures) > 0 {
			// the callee has a contract: its postcondition says when the result
			// is non-nil, so dereferences are checked against it
			pv.Origin = OrigMem
			rv = pv
		}
		vals = append(vals, rv)
	}
	bindResults(vars, sig, vals)
	// ghost updates: field(target) := value; "ghostset": value evaluated in the
	// pre-state, applied before the ensures; "ghostpost": in the post-state, after
	applyGhost := func(g Clause) {
		lhs, rhs, ok := strings.Cut(g.Src, ":=")
		if !ok {
			ex.aborted = fmt.Sprintf("contract error (%s): ghostset needs :=", g.Line)
			return
		}
		lhs = strings.TrimSpace(lhs)
		op := strings.Index(lhs, "(")
		if op < 0 || !strings.HasSuffix(lhs, ")") {
			ex.aborted = fmt.Sprintf("contract error (%s): ghostset target must be field(expr)", g.Line)
			return
		}
		field, target := lhs[:op], lhs[op+1:len(lhs)-1]
		defer func() {
			if r := recover(); r != nil {
				if ee, ok := r.(exprErr); ok {
					ex.aborted = fmt.Sprintf("contract error (%s): %s", g.Line, ee.msg)
					return
				}
				panic(r)
			}
		}()
		ecPost := ex.calleeCtx(f, st, pre, callee, vars)
		id := ex.w.fold(st, ecPost.evalSrc(target).V)
		ecVal, vst := ex.calleeCtx(f, pre, pre, callee, vars), pre
		if g.Post {
			ecVal, vst = ecPost, st
		}
		val := ecVal.evalSrc(rhs)
		var vt string
		if val.C != nil {
			vt = ex.w.foldInt(constBV(val.C, 64), 64)
		} else {
			vt = ex.w.fold(vst, val.V)
		}
		ex.w.ghostSet(st, field, id, vt)
	}
	for _, g := range con.GhostSets {
		if !g.Post {
			if applyGhost(g); ex.aborted != "" {
				return vals
			}
		}
	}
	ec := ex.calleeCtx(f, st, pre, callee, vars)
	ec.assume = true
	for _, c := range con.Ensures {
		t, err := ec.formula(c.Src)
		if err != nil && c.Optional {
			continue // optional clause not evaluable at this site: no fact gained
		}
		if err != nil {
			ex.aborted = fmt.Sprintf("contract error (%s) at call in %s: %v", c.Line, ex.name, err)
			return vals
		}
		st.assume(t)
	}
	for _, g := range con.GhostSets {
		if g.Post {
			if applyGhost(g); ex.aborted != "" {
				return vals
			}
		}
	}
	return vals
}

func (ex *Exec) builtin(f *Frame, st *State, x *ssa.Call, bi *ssa.Builtin) Val {
	w := ex.w
	c := x.Common()
	arg := func(i int) Val { return ex.val(f, st, c.Args[i]) }
	intT := func(t string) Val { return VInt{T: t, W: 64} }
	switch bi.Name() {
	case "len", "cap":
		switch v := arg(0).(type) {
		case VSlice:
			if bi.Name() == "cap" {
				return intT(v.Cap)
			}
			return intT(v.Len)
		case VStr:
			return intT(v.Len)
		case VArrVal:
			return intT(bvLit(uint64(v.N), 64))
		case VPtr:
			if at, ok := under(under(c.Args[0].Type()).(*types.Pointer).Elem()).(*types.Array); ok {
				return intT(bvLit(uint64(at.Len()), 64))
			}
		}
		if at, ok := under(c.Args[0].Type()).(*types.Array); ok {
			return intT(bvLit(uint64(at.Len()), 64))
		}
		l := w.st.fresh("len", bvSort(64))
		st.assume(lenInv(l, l))
		return intT(l)
	case "append":
		s, ok := arg(0).(VSlice)
		if !ok {
			return w.freshReg(st, x.Type(), "append", OrigCall)
		}
		var tOff, tLen string
		var tC Content
		var tElems bool
		switch t := arg(1).(type) {
		case VSlice:
			tOff, tLen = t.Off, t.Len
			tC = st.arrs[t.A].C
			tElems = tC == nil
		case VStr:
			tOff, tLen, tC = t.Off, t.Len, t.C
		default:
			return w.freshReg(st, x.Type(), "append", OrigCall)
		}
		if !s.A.Fresh && s.Len != s.Cap {
			// Go's append writes into the backing array of its first argument when
			// that has spare capacity: memory that existed before and that other
			// slices of the same array can see (frame obligation of the unit)
			st.writes = append(st.writes[:len(st.writes):len(st.writes)], writeRec{arr: s.A, what: "append (in place when the slice has spare capacity)"})
		}
		et := under(x.Type()).(*types.Slice).Elem()
		nl := bvAdd(s.Len, tLen)
		nc := w.st.fresh("appcap", bvSort(64))
		st.assume(lenInv(nl, nc))
		a := w.newArr(et, "append")
		sC := st.arrs[s.A].C
		if _, scalar := scalarWidth(et); scalar && sC != nil && tC != nil && !tElems {
			base := w.freshBase(sC.Width(), "app")
			id1 := app("c_copy", "u_nil", bvLit(0, 64), sC.ID(), s.Off, s.Len)
			c1 := copyContent{dst: base, dstOff: bvLit(0, 64), src: sC, srcOff: s.Off, n: s.Len, id: id1}
			id2 := app("c_copy", id1, s.Len, tC.ID(), tOff, tLen)
			if len(id2) > 400 {
				id2 = w.st.fresh("cid_app", sortU)
			}
			st.arrs[a] = ArrState{C: copyContent{dst: c1, dstOff: s.Len, src: tC, srcOff: tOff, n: tLen, id: id2}}
		} else {
			st.arrs[a] = w.freshArrState(et, "append")
			// keep elements at literal indices when appending to a literal-length prefix
			if _, lit := litVal(s.Len); lit {
				if _, lit2 := litVal(s.Off); lit2 {
					ns := st.arrs[a]
					ns.Elems = map[string]Val{}
					so, _ := litVal(s.Off)
					sl, _ := litVal(s.Len)
					for k := uint64(0); k < sl && k < 64; k++ {
						if e, ok := st.arrs[s.A].Elems[bvLit(so+k, 64)]; ok {
							ns.Elems[bvLit(k, 64)] = e
						}
					}
					st.arrs[a] = ns
				}
			}
		}
		return VSlice{A: a, Off: bvLit(0, 64), Len: nl, Cap: nc, Nil: mkAnd(s.Nil, mkEq(tLen, bvLit(0, 64)))}
	case "copy":
		d, ok := arg(0).(VSlice)
		if !ok {
			return w.freshReg(st, x.Type(), "copy", OrigCall)
		}
		var sOff, sLen string
		var sC Content
		switch s := arg(1).(type) {
		case VSlice:
			sOff, sLen, sC = s.Off, s.Len, st.arrs[s.A].C
		case VStr:
			sOff, sLen, sC = s.Off, s.Len, s.C
		}
		if sLen == "" {
			w.havocArr(st, d.A, map[interface{}]bool{})
			return w.freshReg(st, x.Type(), "copy", OrigCall)
		}
		n := mkIte(app("bvslt", d.Len, sLen), d.Len, sLen)
		st.writes = append(st.writes[:len(st.writes):len(st.writes)], writeRec{arr: d.A, what: "copy"})
		ds := st.arrs[d.A]
		if ds.C != nil && sC != nil {
			id := app("c_copy", ds.C.ID(), d.Off, sC.ID(), sOff, n)
			if len(id) > 400 {
				id = w.st.fresh("cid_copy", sortU)
			}
			ds.C = copyContent{dst: ds.C, dstOff: d.Off, src: sC, srcOff: sOff, n: n, id: id}
			st.arrs[d.A] = ds
		} else {
			w.havocArr(st, d.A, map[interface{}]bool{})
		}
		return intT(n)
	case "min", "max":
		a, ok1 := arg(0).(VInt)
		if !ok1 {
			return w.freshReg(st, x.Type(), bi.Name(), OrigCall)
		}
		cur := a.T
		for i := 1; i < len(c.Args); i++ {
			b, ok := arg(i).(VInt)
			if !ok {
				return w.freshReg(st, x.Type(), bi.Name(), OrigCall)
			}
			lt := "bvult"
			if isSigned(x.Type()) {
				lt = "bvslt"
			}
			if bi.Name() == "min" {
				cur = mkIte(app(lt, b.T, cur), b.T, cur)
			} else {
				cur = mkIte(app(lt, cur, b.T), b.T, cur)
			}
		}
		return VInt{T: cur, W: a.W}
	case "ssa:wrapnilchk":
		return arg(0)
	case "recover":
		return VIface{U: w.st.fresh("recover", sortU)}
	case "clear":
		st.mapEpoch++
		w.havocReach(st, arg(0), map[interface{}]bool{})
		return VTuple{}
	case "delete":
		st.mapEpoch++
		return VTuple{}
	case "close":
		// closing a channel: a site of the pseudo-callee "chanclose" (arg0 the channel)
		if len(x.Call.Args) == 1 {
			pbs := map[string]Binding{"arg0": {V: ex.val(f, st, x.Call.Args[0]), T: x.Call.Args[0].Type()}}
			st.sites = append(st.sites, "chanclose")
			ex.callAsserts(f, st, x, "chanclose", 0, pbs, "")
		}
		return VTuple{}
	case "print", "println":
		return VTuple{}
	}
	w.note("builtin " + bi.Name())
	if x.Type() == nil {
		return VTuple{}
	}
	return w.freshReg(st, x.Type(), bi.Name(), OrigCall)
}

func shortName(name string) string {
	if k := strings.LastIndex(name, "."); k >= 0 {
		return name[k+1:]
	}
	return name
}

// deferInlinable: an anonymous function of the module, loop-free, small, without
// deferred calls of its own, not already being executed.
func (ex *Exec) deferInlinable(f *Frame, callee *ssa.Function) bool {
	if callee == nil || callee.Parent() == nil || len(callee.Blocks) == 0 || !ex.inModule(callee) || ex.onStack(callee) || f.depth >= 3 {
		return false
	}
	if len(ex.prog.loopInfo(callee).headers) != 0 || instrCount(callee) > 100 {
		return false
	}
	for _, b := range callee.Blocks {
		for _, in := range b.Instrs {
			switch in.(type) {
			case *ssa.Defer, *ssa.Go:
				return false
			}
		}
	}
	return true
}

// runDefers executes deferred calls (LIFO): by contract, by executing a small
// closure of the module, or by havoc.
func (ex *Exec) runDefers(f *Frame, st *State, b *ssa.BasicBlock, i int, prev *ssa.BasicBlock) bool {
	w := ex.w
	fs := st.fstate(f)
	ds := fs.defers
	fs.defers = nil
	for k := len(ds) - 1; k >= 0; k-- {
		d := ds[k]
		c := d.call.Common()
		var args []Val
		var callee *ssa.Function
		var bindings []Val
		if c.IsInvoke() {
			args = append(args, d.fnv)
		} else {
			if fv, ok := d.fnv.(VFunc); ok {
				callee, _ = fv.Fn.(*ssa.Function)
				bindings = fv.Bindings
			}
			if sc := c.StaticCallee(); sc != nil {
				callee = sc
			}
		}
		args = append(args, d.args...)
		name := ex.prog.calleeName(c)
		if callee != nil {
			name = ex.prog.funcName(callee)
		}
		if con := ex.prog.CS.ByName[name]; con != nil && !con.Inline && !con.sweepOnly() {
			ex.applyContract(f, st, d.call, con, name, f.li.callOrd[d.call], callee, c.Signature(), args)
			continue
		}
		if ex.prog.CS.ByName[name] == nil && ex.deferInlinable(f, callee) {
			// a small deferred closure of the module (s.priv = nil, clearing a buffer,
			// wrapping the named error) is executed, not havocked: what it establishes
			// on the way out is part of the function's postcondition. The remaining
			// deferred calls run after it, then the function continues after RunDefers.
			ex.inlined[name]++
			rest := ds[:k:k]
			nf := ex.newFrame(callee, f, f.depth+1, f.prefix+"#defer:"+shortName(name))
			nf.chain = f.chain + fmt.Sprintf("%p", d.call) + "/"
			nf.sweep = map[string]bool{}
			for _, cl := range []string{"bounds", "make", "div", "nooverflow"} {
				if f.sweep[cl] {
					nf.sweep[cl] = true
				}
			}
			nf.limit = f.limit
			for j, p := range callee.Params {
				if j < len(args) {
					nf.regs[p] = args[j]
					nf.params[p.Name()] = Binding{V: args[j], T: p.Type()}
				}
			}
			for j, fv := range callee.FreeVars {
				if j < len(bindings) {
					nf.regs[fv] = bindings[j]
				} else {
					nf.regs[fv] = w.freshReg(st, fv.Type(), fv.Name(), OrigKnown)
				}
			}
			ex.stack = append(ex.stack, callee)
			depth := len(ex.stack)
			nf.ret = func(st2 *State, vals []Val) {
				saved := ex.stack
				ex.stack = ex.stack[:depth-1]
				st2.fstate(f).defers = rest
				if !ex.runDefers(f, st2, b, i, prev) {
					ex.runFrom(f, st2, b, i+1, prev)
				}
				ex.stack = saved
			}
			ex.runFrom(nf, st, callee.Blocks[0], 0, nil)
			ex.stack = ex.stack[:depth-1]
			return true
		}
		ex.havocked[name]++
		if ex.prog.CS.isPure(name) {
			continue
		}
		st.mapEpoch++
		seen := map[interface{}]bool{}
		for _, a := range args {
			w.havocReach(st, a, seen)
		}
		for _, bnd := range bindings {
			w.havocReach(st, bnd, seen)
		}
	}
	return false
}

// havocLocation: a modifies clause of the form p.f (p a pointer) names the
// location: the field gets a fresh value; nothing else changes.
func (ex *Exec) havocLocation(st *State, ec *ExprCtx, src string) bool {
	e, err := parser.ParseExpr(strings.TrimSpace(src))
	if err != nil {
		return false
	}
	sel, ok := e.(*ast.SelectorExpr)
	if !ok {
		return false
	}
	base := ec.eval(sel.X)
	p, ok := base.V.(VPtr)
	if !ok || base.T == nil {
		return false
	}
	pt, ok := under(base.T).(*types.Pointer)
	if !ok {
		return false
	}
	idx, ft := findField(pt.Elem(), sel.Sel.Name)
	if len(idx) < 1 || (p.Root == nil && p.Arr == nil) {
		return false
	}
	np := p
	np.Path = append([]PathElem(nil), p.Path...)
	for _, k := range idx {
		np.Path = append(np.Path, PathElem{Field: k})
	}
	ex.w.store(st, np, ex.w.freshReg(st, ft, "mod_"+sel.Sel.Name, OrigCall))
	return true
}
