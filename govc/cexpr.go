package main

// Contract expression language: Go expression syntax (go/parser) plus
//   a ==> b, a <==> b (top level or via imp(a,b) / iff(a,b))
//   forall i in lo..hi: e
//   old(e), len, cap, ite(c,a,b), u(x) (fold to sort U), isnil(x),
//   spec functions and macros, integer conversions.
// Expressions are evaluated over symbolic values in a state.

import (
	"fmt"
	"os"
	"go/ast"
	"go/constant"
	"go/parser"
	"go/token"
	"go/types"
	"strings"

	"golang.org/x/tools/go/ssa"
)

type TV struct {
	V Val
	T types.Type
	C constant.Value // untyped constant
}

type Binding struct {
	V    Val
	T    types.Type
	Addr bool // V is a pointer to the variable
}

type ExprCtx struct {
	fnName func(*ssa.Function) string
	global func(pkg *types.Package, name string) (TV, bool)
	w      *World
	cs     *ContractSet
	st     *State
	old    *State
	vars   map[string]Binding
	entry  map[string]Binding // the unit's parameters at entry: what their names mean inside old(...)
	pkg    *types.Package
	assume bool
	depth  int
}

func (c *ExprCtx) with(vars map[string]Binding) *ExprCtx {
	n := *c
	n.vars = vars
	return &n
}

type exprErr struct{ msg string }

func (e exprErr) Error() string { return e.msg }

func fail(format string, a ...interface{}) { panic(exprErr{fmt.Sprintf(format, a...)}) }

// formula evaluates a boolean contract expression to an SMT term.
func (c *ExprCtx) formula(src string) (t string, err error) {
	defer func() {
		if r := recover(); r != nil {
			if ee, ok := r.(exprErr); ok {
				err = fmt.Errorf("%s  [in: %s]", ee.msg, src)
				return
			}
			panic(r)
		}
	}()
	return c.form(strings.TrimSpace(src)), nil
}

func (c *ExprCtx) form(src string) string {
	src = strings.TrimSpace(src)
	if strings.HasPrefix(src, "forall ") {
		return c.forall(src)
	}
	if parts := splitOp(src, "<==>"); len(parts) == 2 {
		return mkEq(c.form(parts[0]), c.form(parts[1]))
	}
	if parts := splitOp(src, "==>"); len(parts) >= 2 {
		return mkImp(c.form(parts[0]), c.form(strings.Join(parts[1:], "==>")))
	}
	e, err := parser.ParseExpr(src)
	if err != nil {
		fail("parse error: %v", err)
	}
	return c.boolOf(c.eval(e))
}

// splitOp splits at the first top-level occurrence of op.
func splitOp(s, op string) []string {
	d := 0
	for i := 0; i+len(op) <= len(s); i++ {
		switch s[i] {
		case '(', '[', '{':
			d++
		case ')', ']', '}':
			d--
		case '"':
			for i++; i < len(s) && s[i] != '"'; i++ {
				if s[i] == '\\' {
					i++
				}
			}
		}
		if d == 0 && strings.HasPrefix(s[i:], op) {
			if op == "==>" && i > 0 && s[i-1] == '<' {
				continue
			}
			return []string{s[:i], s[i+len(op):]}
		}
	}
	return []string{s}
}

func (c *ExprCtx) forall(src string) string {
	// forall i in lo..hi: body
	rest := strings.TrimPrefix(src, "forall ")
	colon := strings.Index(rest, ":")
	if colon < 0 {
		fail("forall without ':'")
	}
	head, body := strings.TrimSpace(rest[:colon]), rest[colon+1:]
	name, rng, ok := strings.Cut(head, " in ")
	name = strings.TrimSpace(name)
	intT := types.Typ[types.Int]
	var sym string
	if c.assume {
		sym = fmt.Sprintf("q_%s_%d", name, c.depth)
	} else {
		sym = c.w.st.fresh("sk_"+name, bvSort(64))
	}
	vars := map[string]Binding{}
	for k, v := range c.vars {
		vars[k] = v
	}
	vars[name] = Binding{V: VInt{T: sym, W: 64}, T: intT}
	n := c.with(vars)
	n.depth++
	guard := "true"
	if ok {
		lo, hi, ok2 := strings.Cut(rng, "..")
		if !ok2 {
			fail("forall range needs lo..hi")
		}
		l := c.intOf(c.evalSrc(lo), 64)
		h := c.intOf(c.evalSrc(hi), 64)
		guard = mkAnd(app("bvsle", l, sym), app("bvslt", sym, h))
	}
	before := len(c.st.pc)
	b := mkImp(guard, n.form(body))
	if c.assume {
		// type invariants of values read under the binder mention the bound
		// variable: keep them inside the quantifier
		extra := append([]string(nil), c.st.pc[before:]...)
		c.st.pc = c.st.pc[:before]
		if len(extra) > 0 {
			b = mkAnd(append(extra, b)...)
		}
		return fmt.Sprintf("(forall ((%s (_ BitVec 64))) %s)", sym, b)
	}
	return b
}

func (c *ExprCtx) evalSrc(src string) TV {
	e, err := parser.ParseExpr(strings.TrimSpace(src))
	if err != nil {
		fail("parse error: %v", err)
	}
	return c.eval(e)
}

func (c *ExprCtx) boolOf(tv TV) string {
	if tv.C != nil && tv.C.Kind() == constant.Bool {
		if constant.BoolVal(tv.C) {
			return "true"
		}
		return "false"
	}
	if b, ok := tv.V.(VBool); ok {
		return b.T
	}
	fail("expected a boolean, got %T", tv.V)
	return ""
}

// intOf coerces to a bit-vector of width w (0 = keep).
func (c *ExprCtx) intOf(tv TV, w int) string {
	if tv.C != nil {
		if w == 0 {
			w = 64
		}
		return constBV(tv.C, w)
	}
	if i, ok := tv.V.(VInt); ok {
		if w == 0 || i.W == w {
			return i.T
		}
		return convInt(i.T, i.W, w, tv.T != nil && isSigned(tv.T))
	}
	fail("expected an integer, got %T", tv.V)
	return ""
}

func constBV(cv constant.Value, w int) string {
	cv = constant.ToInt(cv)
	if cv.Kind() != constant.Int {
		fail("constant %v is not an integer", cv)
	}
	if v, ok := constant.Int64Val(cv); ok {
		return bvLitI(v, w)
	}
	if v, ok := constant.Uint64Val(cv); ok {
		return bvLit(v, w)
	}
	fail("constant %v out of range", cv)
	return ""
}

func convInt(t string, from, to int, signed bool) string {
	if from == to {
		return t
	}
	if v, ok := litVal(t); ok {
		if to < from {
			return bvLit(v, to)
		}
		if signed && from < 64 && v&(1<<uint(from-1)) != 0 {
			v |= ^uint64(0) << uint(from)
		}
		return bvLit(v, to)
	}
	if to < from {
		return fmt.Sprintf("((_ extract %d 0) %s)", to-1, t)
	}
	if signed {
		return fmt.Sprintf("((_ sign_extend %d) %s)", to-from, t)
	}
	return fmt.Sprintf("((_ zero_extend %d) %s)", to-from, t)
}

func (c *ExprCtx) eval(e ast.Expr) TV {
	switch x := e.(type) {
	case *ast.ParenExpr:
		return c.eval(x.X)
	case *ast.BasicLit:
		switch x.Kind {
		case token.INT, token.CHAR:
			return TV{C: constant.MakeFromLiteral(x.Value, x.Kind, 0)}
		case token.STRING:
			s := constant.StringVal(constant.MakeFromLiteral(x.Value, x.Kind, 0))
			return TV{V: VStr{C: c.w.constStr(s), Off: bvLit(0, 64), Len: bvLit(uint64(len(s)), 64)}, T: types.Typ[types.String]}
		}
		fail("unsupported literal %s", x.Value)
	case *ast.Ident:
		return c.ident(x.Name)
	case *ast.SelectorExpr:
		if id, ok := x.X.(*ast.Ident); ok {
			if _, bound := c.vars[id.Name]; !bound {
				if p := c.findPkg(id.Name); p != nil {
					return c.pkgObj(p, x.Sel.Name)
				}
			}
		}
		return c.field(c.eval(x.X), x.Sel.Name)
	case *ast.StarExpr:
		return c.deref(c.eval(x.X))
	case *ast.UnaryExpr:
		return c.unary(x)
	case *ast.BinaryExpr:
		return c.binary(x)
	case *ast.IndexExpr:
		return c.index(c.eval(x.X), c.eval(x.Index))
	case *ast.SliceExpr:
		return c.slice(x)
	case *ast.CallExpr:
		return c.call(x)
	}
	fail("unsupported expression %T", e)
	return TV{}
}

func (c *ExprCtx) findPkg(name string) *types.Package {
	if c.pkg == nil {
		return nil
	}
	if c.pkg.Name() == name {
		return c.pkg
	}
	for _, p := range c.pkg.Imports() {
		if p.Name() == name {
			return p
		}
	}
	return nil
}

func (c *ExprCtx) pkgObj(p *types.Package, name string) TV {
	o := p.Scope().Lookup(name)
	if k, ok := o.(*types.Const); ok {
		return c.constTV(k)
	}
	if _, ok := o.(*types.Var); ok && c.global != nil {
		// a package-level variable of an imported package (io.Discard, io.EOF, ...)
		if tv, ok := c.global(p, name); ok {
			return tv
		}
	}
	fail("%s.%s is not a constant", p.Name(), name)
	return TV{}
}

func (c *ExprCtx) constTV(k *types.Const) TV {
	t := k.Type()
	if b, ok := under(t).(*types.Basic); ok && b.Info()&types.IsUntyped != 0 {
		return TV{C: k.Val()}
	}
	if wd, ok := scalarWidth(t); ok {
		return TV{V: VInt{T: constBV(k.Val(), wd), W: wd}, T: t}
	}
	if k.Val().Kind() == constant.String {
		s := constant.StringVal(k.Val())
		return TV{V: VStr{C: c.w.constStr(s), Off: bvLit(0, 64), Len: bvLit(uint64(len(s)), 64)}, T: t}
	}
	if k.Val().Kind() == constant.Bool {
		return TV{C: k.Val()}
	}
	fail("unsupported constant %s", k.Name())
	return TV{}
}

func (c *ExprCtx) ident(name string) TV {
	switch name {
	case "true":
		return TV{C: constant.MakeBool(true)}
	case "false":
		return TV{C: constant.MakeBool(false)}
	case "nil":
		return TV{V: nil, T: types.Typ[types.UntypedNil]}
	}
	if b, ok := c.vars[name]; ok {
		if b.Addr {
			p, ok := b.V.(VPtr)
			if !ok {
				fail("variable %s is not addressable", name)
			}
			return TV{V: c.w.load(c.st, p), T: b.T}
		}
		return TV{V: b.V, T: b.T}
	}
	if c.pkg != nil {
		if k, ok := c.pkg.Scope().Lookup(name).(*types.Const); ok {
			return c.constTV(k)
		}
		if _, ok := c.pkg.Scope().Lookup(name).(*types.Var); ok && c.global != nil {
			if tv, ok := c.global(c.pkg, name); ok {
				return tv
			}
		}
	}
	fail("unknown identifier %q", name)
	return TV{}
}

func (c *ExprCtx) deref(tv TV) TV {
	p, ok := tv.V.(VPtr)
	if !ok {
		if o, isO := tv.V.(VOpaque); isO {
			return TV{V: VOpaque{T: app(c.w.st.declare("u_deref", []string{sortU}, sortU), o.T)}}
		}
		fail("cannot dereference %T", tv.V)
	}
	var et types.Type
	if pt, ok := under(tv.T).(*types.Pointer); ok {
		et = pt.Elem()
	}
	v := c.w.load(c.st, p)
	if v == nil {
		// nil / unknown pointer: the pointee is arbitrary
		if et == nil {
			fail("dereference of an unknown pointer")
		}
		v = c.w.freshReg(c.st, et, "deref", OrigMem)
	}
	return TV{V: v, T: et}
}

func findField(t types.Type, name string) (idx []int, ft types.Type) {
	obj, index, _ := types.LookupFieldOrMethod(t, true, nil, name)
	if v, ok := obj.(*types.Var); ok {
		return index, v.Type()
	}
	// unexported fields need the package: search manually
	var walk func(t types.Type, depth int) ([]int, types.Type)
	walk = func(t types.Type, depth int) ([]int, types.Type) {
		if p, ok := under(t).(*types.Pointer); ok {
			t = p.Elem()
		}
		st, ok := under(t).(*types.Struct)
		if !ok || depth > 4 {
			return nil, nil
		}
		for i := 0; i < st.NumFields(); i++ {
			if st.Field(i).Name() == name {
				return []int{i}, st.Field(i).Type()
			}
		}
		for i := 0; i < st.NumFields(); i++ {
			if st.Field(i).Embedded() {
				if ix, ft := walk(st.Field(i).Type(), depth+1); ix != nil {
					return append([]int{i}, ix...), ft
				}
			}
		}
		return nil, nil
	}
	return walk(t, 0)
}

func (c *ExprCtx) field(tv TV, name string) TV {
	if tv.T == nil {
		fail("field %s of untyped value", name)
	}
	idx, _ := findField(tv.T, name)
	if idx == nil {
		fail("no field %s in %s", name, tv.T)
	}
	cur := tv
	for _, i := range idx {
		if _, ok := under(cur.T).(*types.Pointer); ok {
			cur = c.deref(cur)
		}
		st, ok := under(cur.T).(*types.Struct)
		if !ok {
			fail("field access on non-struct %s", cur.T)
		}
		sv, ok := cur.V.(VStruct)
		if !ok {
			fail("field %s of non-struct value %T", name, cur.V)
		}
		cur = TV{V: sv.F[i], T: st.Field(i).Type()}
	}
	return cur
}

func (c *ExprCtx) index(x, i TV) TV {
	idx := c.intOf(i, 64)
	if _, ok := under(x.T).(*types.Pointer); ok {
		x = c.deref(x)
	}
	switch v := x.V.(type) {
	case VSlice:
		et := under(x.T).(*types.Slice).Elem()
		abs := bvAdd(v.Off, idx)
		if wd, ok := scalarWidth(et); ok {
			return TV{V: VInt{T: c.st.arrs[v.A].C.Sel(abs), W: wd}, T: et}
		}
		return TV{V: c.w.snapshot(c.st, c.w.elemVal(c.st, v.A, abs)), T: et}
	case VStr:
		return TV{V: VInt{T: v.C.Sel(bvAdd(v.Off, idx)), W: 8}, T: types.Typ[types.Uint8]}
	case VArrVal:
		if wd, ok := scalarWidth(v.E); ok {
			return TV{V: VInt{T: v.S.C.Sel(idx), W: wd}, T: v.E}
		}
		if e, ok := v.S.Elems[idx]; ok && e != nil {
			return TV{V: e, T: v.E}
		}
		fail("index of composite array value")
	case VArrRef:
		if wd, ok := scalarWidth(v.A.Elem); ok {
			return TV{V: VInt{T: c.st.arrs[v.A].C.Sel(idx), W: wd}, T: v.A.Elem}
		}
		return TV{V: c.w.snapshot(c.st, c.w.elemVal(c.st, v.A, idx)), T: v.A.Elem}
	}
	fail("cannot index %T", x.V)
	return TV{}
}

func (c *ExprCtx) slice(x *ast.SliceExpr) TV {
	b := c.eval(x.X)
	lo := bvLit(0, 64)
	if x.Low != nil {
		lo = c.intOf(c.eval(x.Low), 64)
	}
	switch v := b.V.(type) {
	case VSlice:
		hi := v.Len
		if x.High != nil {
			hi = c.intOf(c.eval(x.High), 64)
		}
		return TV{V: VSlice{A: v.A, Off: bvAdd(v.Off, lo), Len: bvSub(hi, lo), Cap: bvSub(v.Cap, lo), Nil: "false"}, T: b.T}
	case VStr:
		hi := v.Len
		if x.High != nil {
			hi = c.intOf(c.eval(x.High), 64)
		}
		return TV{V: VStr{C: v.C, Off: bvAdd(v.Off, lo), Len: bvSub(hi, lo)}, T: b.T}
	}
	fail("cannot slice %T", b.V)
	return TV{}
}

func (c *ExprCtx) unary(x *ast.UnaryExpr) TV {
	a := c.eval(x.X)
	switch x.Op {
	case token.NOT:
		return TV{V: VBool{T: mkNot(c.boolOf(a))}, T: types.Typ[types.Bool]}
	case token.SUB:
		if a.C != nil {
			return TV{C: constant.UnaryOp(token.SUB, a.C, 0)}
		}
		i := a.V.(VInt)
		return TV{V: VInt{T: app("bvneg", i.T), W: i.W}, T: a.T}
	case token.XOR:
		if a.C != nil {
			return TV{C: constant.UnaryOp(token.XOR, a.C, 0)}
		}
		i := a.V.(VInt)
		return TV{V: VInt{T: app("bvnot", i.T), W: i.W}, T: a.T}
	case token.ADD:
		return a
	}
	fail("unsupported unary operator %s", x.Op)
	return TV{}
}

func (c *ExprCtx) binary(x *ast.BinaryExpr) TV {
	boolT := types.Typ[types.Bool]
	switch x.Op {
	case token.LAND:
		return TV{V: VBool{T: mkAnd(c.boolOf(c.eval(x.X)), c.boolOf(c.eval(x.Y)))}, T: boolT}
	case token.LOR:
		return TV{V: VBool{T: mkOr(c.boolOf(c.eval(x.X)), c.boolOf(c.eval(x.Y)))}, T: boolT}
	}
	return c.binop(x.Op, c.eval(x.X), c.eval(x.Y))
}

// binop applies a non-short-circuit binary operator.
func (c *ExprCtx) binop(op token.Token, a, b TV) TV {
	boolT := types.Typ[types.Bool]
	switch op {
	case token.EQL:
		return TV{V: VBool{T: c.equal(a, b)}, T: boolT}
	case token.NEQ:
		return TV{V: VBool{T: mkNot(c.equal(a, b))}, T: boolT}
	}
	// arithmetic / ordering on integers
	if a.C != nil && b.C != nil {
		switch op {
		case token.LSS, token.LEQ, token.GTR, token.GEQ:
			return TV{C: constant.MakeBool(constant.Compare(a.C, op, b.C))}
		case token.SHL, token.SHR:
			s, _ := constant.Uint64Val(constant.ToInt(b.C))
			return TV{C: constant.Shift(constant.ToInt(a.C), op, uint(s))}
		case token.QUO:
			return TV{C: constant.BinaryOp(constant.ToInt(a.C), token.QUO_ASSIGN, constant.ToInt(b.C))}
		}
		return TV{C: constant.BinaryOp(a.C, op, b.C)}
	}
	var w int
	var t types.Type
	if a.C == nil {
		ai, ok := a.V.(VInt)
		if !ok {
			fail("operator %s on %T", op, a.V)
		}
		w, t = ai.W, a.T
	} else {
		bi, ok := b.V.(VInt)
		if !ok {
			fail("operator %s on %T", op, b.V)
		}
		w, t = bi.W, b.T
	}
	signed := t == nil || isSigned(t)
	l := c.intOf(a, w)
	var r string
	if op == token.SHL || op == token.SHR {
		// shift count: any width; bring to w
		if b.C != nil {
			r = constBV(b.C, w)
		} else {
			bi := b.V.(VInt)
			r = shiftCount(bi.T, bi.W, w)
		}
	} else {
		if b.C == nil {
			if bi, ok := b.V.(VInt); ok && bi.W != w {
				fail("operand widths differ: %d vs %d", w, bi.W)
			}
		}
		r = c.intOf(b, w)
	}
	cmp := func(s, u string) TV {
		op := u
		if signed {
			op = s
		}
		return TV{V: VBool{T: app(op, l, r)}, T: boolT}
	}
	ar := func(op string) TV { return TV{V: VInt{T: app(op, l, r), W: w}, T: t} }
	switch op {
	case token.LSS:
		return cmp("bvslt", "bvult")
	case token.LEQ:
		return cmp("bvsle", "bvule")
	case token.GTR:
		return cmp("bvsgt", "bvugt")
	case token.GEQ:
		return cmp("bvsge", "bvuge")
	case token.ADD:
		return ar("bvadd")
	case token.SUB:
		return ar("bvsub")
	case token.MUL:
		return ar("bvmul")
	case token.QUO:
		if signed {
			return ar("bvsdiv")
		}
		return ar("bvudiv")
	case token.REM:
		if signed {
			return ar("bvsrem")
		}
		return ar("bvurem")
	case token.AND:
		return ar("bvand")
	case token.OR:
		return ar("bvor")
	case token.XOR:
		return ar("bvxor")
	case token.AND_NOT:
		return TV{V: VInt{T: app("bvand", l, app("bvnot", r)), W: w}, T: t}
	case token.SHL:
		return ar("bvshl")
	case token.SHR:
		if signed {
			return ar("bvashr")
		}
		return ar("bvlshr")
	}
	fail("unsupported binary operator %s", op)
	return TV{}
}

// shiftCount converts a shift count of width from to width to, saturating.
func shiftCount(t string, from, to int) string {
	if from == to {
		return t
	}
	if from < to {
		return convInt(t, from, to, false)
	}
	big := app("bvuge", t, bvLit(uint64(to), from))
	return mkIte(big, bvLit(uint64(to), to), convInt(t, from, to, false))
}

func (c *ExprCtx) equal(a, b TV) string {
	// nil comparisons
	if isNilTV(a) {
		a, b = b, a
	}
	if isNilTV(b) {
		switch v := a.V.(type) {
		case VPtr:
			return v.Nil
		case VIface:
			return mkEq(v.U, "nil_iface")
		case VSlice:
			return v.Nil
		case VOpaque:
			return mkEq(v.T, c.w.zeroU(a.T))
		case VFunc:
			return "false"
		case nil:
			return "true"
		}
		fail("cannot compare %T with nil", a.V)
	}
	if a.C != nil && b.C != nil {
		if constant.Compare(a.C, token.EQL, b.C) {
			return "true"
		}
		return "false"
	}
	if a.C != nil {
		a, b = b, a
	}
	switch v := a.V.(type) {
	case VInt:
		return mkEq(v.T, c.intOf(b, v.W))
	case VBool:
		return mkEq(v.T, c.boolOf(b))
	case VOpaque:
		return mkEq(v.T, c.w.fold(c.st, b.V))
	case VIface:
		return mkEq(v.U, c.w.fold(c.st, b.V))
	case VPtr:
		if q, ok := b.V.(VPtr); ok {
			return ptrEq(c.w, v, q)
		}
	case VStr:
		if q, ok := b.V.(VStr); ok {
			return c.w.strEq(c.st, v, q)
		}
	}
	if b.V != nil {
		if _, ok := b.V.(VOpaque); ok {
			return mkEq(c.w.fold(c.st, a.V), c.w.fold(c.st, b.V))
		}
	}
	// structural values: equality of folds
	return mkEq(c.w.fold(c.st, a.V), c.w.fold(c.st, b.V))
}

func isNilTV(tv TV) bool {
	if tv.C != nil {
		return false
	}
	b, ok := tv.T.(*types.Basic)
	return ok && b.Kind() == types.UntypedNil
}

func ptrEq(w *World, p, q VPtr) string {
	bothNil := mkAnd(p.Nil, q.Nil)
	if p.Root != nil && q.Root != nil && p.Root != q.Root && !p.IDU && !q.IDU &&
		((p.Root.Local && p.Root.ID > q.Root.ID) || (q.Root.Local && q.Root.ID > p.Root.ID)) {
		// an allocation is distinct from every object that a pointer value
		// created before it can refer to
		return bothNil
	}
	neither := mkAnd(mkNot(p.Nil), mkNot(q.Nil))
	return mkOr(bothNil, mkAnd(neither, mkEq(w.ptrID(VPtr{Root: p.Root, Arr: p.Arr, Idx: p.Idx, Path: p.Path, Nil: "false", U: p.U}),
		w.ptrID(VPtr{Root: q.Root, Arr: q.Arr, Idx: q.Idx, Path: q.Path, Nil: "false", U: q.U}))))
}

// strEq: equality of strings = equality of folds, and equal strings have
// equal length; constants compare by value.
func (w *World) strEq(s *State, a, b VStr) string {
	ca, oka := a.C.(constContent)
	cb, okb := b.C.(constContent)
	if oka && okb {
		if _, l1 := litVal(a.Off); l1 {
			if string(ca.b) == string(cb.b) && a.Off == b.Off && a.Len == b.Len {
				return "true"
			}
			if a.Off == bvLit(0, 64) && b.Off == bvLit(0, 64) {
				return "false"
			}
		}
	}
	eq := mkEq(w.fold(s, a), w.fold(s, b))
	if eq == "true" {
		return eq
	}
	// equal strings have equal length and equal bytes at the first position
	conj := []string{eq, mkEq(a.Len, b.Len)}
	// For constant comparisons add byte-wise equality so that distinct
	// constants are distinguishable.
	if okb && len(cb.b) <= 32 {
		byteEq := []string{mkEq(a.Len, b.Len)}
		for k := range cb.b {
			byteEq = append(byteEq, mkEq(a.C.Sel(bvAdd(a.Off, bvLit(uint64(k), 64))), bvLit(uint64(cb.b[k]), 8)))
		}
		return mkAnd(byteEq...)
	}
	if oka && len(ca.b) <= 32 {
		return w.strEq(s, b, a)
	}
	return mkAnd(conj...)
}

var convWidths = map[string]struct {
	w int
	t types.Type
}{
	"int": {64, types.Typ[types.Int]}, "int8": {8, types.Typ[types.Int8]}, "int16": {16, types.Typ[types.Int16]},
	"int32": {32, types.Typ[types.Int32]}, "int64": {64, types.Typ[types.Int64]},
	"uint": {64, types.Typ[types.Uint]}, "uint8": {8, types.Typ[types.Uint8]}, "byte": {8, types.Typ[types.Uint8]},
	"uint16": {16, types.Typ[types.Uint16]}, "uint32": {32, types.Typ[types.Uint32]}, "uint64": {64, types.Typ[types.Uint64]},
}

func (c *ExprCtx) call(x *ast.CallExpr) TV {
	boolT := types.Typ[types.Bool]
	id, ok := x.Fun.(*ast.Ident)
	if !ok {
		fail("unsupported call expression")
	}
	name := id.Name
	if cw, ok := convWidths[name]; ok && len(x.Args) == 1 {
		a := c.eval(x.Args[0])
		if a.C != nil {
			return TV{V: VInt{T: constBV(a.C, cw.w), W: cw.w}, T: cw.t}
		}
		i, ok := a.V.(VInt)
		if !ok {
			fail("conversion of %T to %s", a.V, name)
		}
		return TV{V: VInt{T: convInt(i.T, i.W, cw.w, a.T != nil && isSigned(a.T)), W: cw.w}, T: cw.t}
	}
	switch name {
	case "len", "cap":
		a := c.eval(x.Args[0])
		if _, ok := under(a.T).(*types.Pointer); ok && a.T != nil {
			a = c.deref(a)
		}
		intT := types.Typ[types.Int]
		switch v := a.V.(type) {
		case VSlice:
			if name == "cap" {
				return TV{V: VInt{T: v.Cap, W: 64}, T: intT}
			}
			return TV{V: VInt{T: v.Len, W: 64}, T: intT}
		case VStr:
			return TV{V: VInt{T: v.Len, W: 64}, T: intT}
		case VArrVal:
			return TV{V: VInt{T: bvLit(uint64(v.N), 64), W: 64}, T: intT}
		case VArrRef:
			return TV{V: VInt{T: bvLit(uint64(v.N), 64), W: 64}, T: intT}
		}
		fail("len of %T", a.V)
	case "old":
		if c.old == nil {
			fail("old() is not available here")
		}
		n := *c
		n.st = c.old
		if len(c.entry) > 0 {
			// a parameter reassigned in the body (sess = nil) still names its entry value in old(...)
			n.vars = make(map[string]Binding, len(c.vars))
			for k, v := range c.vars {
				n.vars[k] = v
			}
			for k, v := range c.entry {
				if !strings.HasPrefix(k, "arg") {
					n.vars[k] = v
				}
			}
		}
		return n.eval(x.Args[0])
	case "ite":
		cond := c.boolOf(c.eval(x.Args[0]))
		a, b := c.eval(x.Args[1]), c.eval(x.Args[2])
		if ai, ok := a.V.(VInt); ok {
			return TV{V: VInt{T: mkIte(cond, ai.T, c.intOf(b, ai.W)), W: ai.W}, T: a.T}
		}
		if bi, ok := b.V.(VInt); ok {
			return TV{V: VInt{T: mkIte(cond, c.intOf(a, bi.W), bi.T), W: bi.W}, T: b.T}
		}
		if a.C != nil && b.C != nil {
			if a.C.Kind() == constant.Bool {
				return TV{V: VBool{T: mkIte(cond, c.boolOf(a), c.boolOf(b))}, T: boolT}
			}
			return TV{V: VInt{T: mkIte(cond, constBV(a.C, 64), constBV(b.C, 64)), W: 64}, T: types.Typ[types.Int]}
		}
		if _, ok := a.V.(VBool); ok {
			return TV{V: VBool{T: mkIte(cond, c.boolOf(a), c.boolOf(b))}, T: boolT}
		}
		return TV{V: VOpaque{T: mkIte(cond, c.w.fold(c.st, a.V), c.w.fold(c.st, b.V))}}
	case "imp":
		return TV{V: VBool{T: mkImp(c.boolOf(c.eval(x.Args[0])), c.boolOf(c.eval(x.Args[1])))}, T: boolT}
	case "iff":
		return TV{V: VBool{T: mkEq(c.boolOf(c.eval(x.Args[0])), c.boolOf(c.eval(x.Args[1])))}, T: boolT}
	case "u", "fold", "bytes":
		a := c.eval(x.Args[0])
		if a.C != nil {
			return TV{V: VOpaque{T: c.w.foldInt(constBV(a.C, 64), 64)}}
		}
		return TV{V: VOpaque{T: c.w.fold(c.st, a.V)}}
	case "binding":
		// binding(f, k): the k-th captured value of a known closure / bound method value
		a := c.eval(x.Args[0])
		fv, ok := a.V.(VFunc)
		if lit, isLit := x.Args[1].(*ast.BasicLit); isLit && lit.Kind == token.STRING {
			// by name of the captured variable
			want := constant.StringVal(constant.MakeFromLiteral(lit.Value, lit.Kind, 0))
			if fn, isFn := fv.Fn.(*ssa.Function); ok && isFn {
				for i, fvar := range fn.FreeVars {
					if fvar.Name() == want && i < len(fv.Bindings) {
						return TV{V: fv.Bindings[i], T: fvar.Type()}
					}
				}
			}
			return TV{V: VOpaque{T: c.w.st.fresh("binding", sortU)}}
		}
		k := c.eval(x.Args[1])
		if !ok || k.C == nil {
			// not a known closure on this path: the captured value is arbitrary
			return TV{V: VOpaque{T: c.w.st.fresh("binding", sortU)}}
		}
		ki, _ := constant.Int64Val(constant.ToInt(k.C))
		if int(ki) >= len(fv.Bindings) {
			fail("binding: index out of range")
		}
		if fn, ok := fv.Fn.(*ssa.Function); ok && int(ki) < len(fn.FreeVars) {
			return TV{V: fv.Bindings[ki], T: fn.FreeVars[ki].Type()}
		}
		return TV{V: VOpaque{T: c.w.fold(c.st, fv.Bindings[ki])}}
	case "fnis":
		// fnis(f, "pkg.Func$1"): f is known to be this function
		a := c.eval(x.Args[0])
		lit, ok := x.Args[1].(*ast.BasicLit)
		if !ok {
			fail("fnis needs a string literal")
		}
		want := constant.StringVal(constant.MakeFromLiteral(lit.Value, lit.Kind, 0))
		fv, ok := a.V.(VFunc)
		if !ok || c.fnName == nil {
			return TV{C: constant.MakeBool(false)}
		}
		fn, _ := fv.Fn.(*ssa.Function)
		return TV{C: constant.MakeBool(fn != nil && c.fnName(fn) == want)}
	case "tuple":
		// tuple(a, b, ...): the fold of a struct value with these fields
		t := "u_nil"
		for i := len(x.Args) - 1; i >= 0; i-- {
			a := c.eval(x.Args[i])
			var ft string
			if a.C != nil {
				ft = c.w.foldInt(constBV(a.C, 64), 64)
			} else {
				ft = c.w.fold(c.st, a.V)
			}
			t = app("u_cons", ft, t)
		}
		return TV{V: VOpaque{T: t}}
	case "encarg":
		// encarg(v): what an encoder encodes for argument v (an interface): the
		// pointee / value inside it when known on this path, else v's identity
		a := c.eval(x.Args[0])
		if iv, ok := a.V.(VIface); ok && iv.Val != nil {
			if p, ok := iv.Val.(VPtr); ok {
				if v := c.w.load(c.st, p); v != nil {
					return TV{V: VOpaque{T: c.w.fold(c.st, v)}}
				}
			}
			return TV{V: VOpaque{T: c.w.fold(c.st, iv.Val)}}
		}
		return TV{V: VOpaque{T: c.w.fold(c.st, a.V)}}
	case "ud":
		// ud(x): fold of x, through one pointer (an encoder encodes the pointee)
		a := c.eval(x.Args[0])
		if p, ok := a.V.(VPtr); ok {
			if v := c.w.load(c.st, p); v != nil {
				return TV{V: VOpaque{T: c.w.fold(c.st, v)}}
			}
		}
		return TV{V: VOpaque{T: c.w.fold(c.st, a.V)}}
	case "unwrap":
		// unwrap(x): the dynamic value of interface x when it is known on this path
		a := c.eval(x.Args[0])
		iv, ok := a.V.(VIface)
		if !ok || iv.Concrete == nil || iv.Val == nil {
			fail("unwrap: dynamic value not known here")
		}
		return TV{V: iv.Val, T: iv.Concrete}
	case "isnil":
		a := c.eval(x.Args[0])
		return TV{V: VBool{T: c.equal(a, TV{T: types.Typ[types.UntypedNil]})}, T: boolT}
	case "mapval":
		// mapval(m, k): the value stored under key k in map m by an update of the
		// current epoch, as an uninterpreted term (the dynamic value for interfaces)
		m, k := c.eval(x.Args[0]), c.eval(x.Args[1])
		var ku string
		if k.C != nil {
			ku = c.w.foldInt(constBV(k.C, 64), 64)
		} else {
			ku = c.w.fold(c.st, k.V)
		}
		fn := c.w.st.declare("map_getU", []string{sortU, bvSort(64), sortU}, sortU)
		return TV{V: VOpaque{T: app(fn, c.w.fold(c.st, m.V), bvLit(uint64(c.st.mapEpoch), 64), ku)}}
	case "allochere":
		// allochere(m): map m was created by a make in this function's own execution
		a := c.eval(x.Args[0])
		return TV{V: VBool{T: app(c.w.st.declare("alloc_here", []string{sortU}, sortBool), c.w.fold(c.st, a.V))}, T: boolT}
	case "implements":
		// implements(x, "pkg.Iface"): the interface-to-interface assertion x.(Iface)
		// would succeed (same symbol as the executor uses for that assertion)
		a := c.eval(x.Args[0])
		iv, ok := a.V.(VIface)
		if !ok {
			fail("implements of non-interface")
		}
		lit, ok := x.Args[1].(*ast.BasicLit)
		if !ok {
			fail("implements needs a string literal")
		}
		tn := constant.StringVal(constant.MakeFromLiteral(lit.Value, lit.Kind, 0))
		if iv.U == "nil_iface" || iv.U == "" {
			return TV{C: constant.MakeBool(false)}
		}
		fn := c.w.st.declare("ta_"+sanitize(tn), []string{sortU}, sortBool)
		return TV{V: VBool{T: app(fn, iv.U)}, T: boolT}
	case "dyntype":
		// dyntype(x, "pkg.T"): the dynamic type of interface x is known to be T
		a := c.eval(x.Args[0])
		iv, ok := a.V.(VIface)
		if !ok {
			fail("dyntype of non-interface")
		}
		lit, ok := x.Args[1].(*ast.BasicLit)
		if !ok {
			fail("dyntype needs a string literal")
		}
		tn := constant.StringVal(constant.MakeFromLiteral(lit.Value, lit.Kind, 0))
		if iv.Concrete != nil && !hasTypeParam(iv.Concrete, 0) {
			got := types.TypeString(iv.Concrete, func(p *types.Package) string { return p.Name() })
			if os.Getenv("GOVC_DEBUG") != "" {
				fmt.Fprintf(os.Stderr, "dyntype: %s\n", got)
			}
			return TV{C: constant.MakeBool(strings.ReplaceAll(got, " ", "") == strings.ReplaceAll(tn, " ", ""))}
		}
		if iv.U == "nil_iface" {
			return TV{C: constant.MakeBool(false)}
		}
		f := c.w.st.declare("dyn_type", []string{sortU}, sortU)
		tc := c.w.typeConst(c.st, tn)
		return TV{V: VBool{T: mkEq(app(f, iv.U), tc)}, T: boolT}
	}
	if c.cs.GhostFields[name] && len(x.Args) == 1 {
		a := c.eval(x.Args[0])
		return TV{V: VOpaque{T: c.w.ghostGet(c.st, name, c.w.fold(c.st, a.V))}}
	}
	if sf, ok := c.cs.Funcs[name]; ok {
		if len(sf.Args) != len(x.Args) {
			fail("spec function %s takes %d arguments", name, len(sf.Args))
		}
		var sorts, args []string
		for i, s := range sf.Args {
			a := c.eval(x.Args[i])
			switch s {
			case "U":
				sorts = append(sorts, sortU)
				if a.C != nil {
					args = append(args, c.w.foldInt(constBV(a.C, 64), 64))
				} else {
					args = append(args, c.w.fold(c.st, a.V))
				}
			case "Bool":
				sorts = append(sorts, sortBool)
				args = append(args, c.boolOf(a))
			default:
				wd := specWidth(s)
				sorts = append(sorts, bvSort(wd))
				args = append(args, c.intOf(a, wd))
			}
		}
		var ret string
		switch sf.Ret {
		case "U":
			ret = sortU
		case "Bool":
			ret = sortBool
		default:
			ret = bvSort(specWidth(sf.Ret))
		}
		c.w.st.declare("sf_"+name, sorts, ret)
		var t string
		if len(args) == 0 {
			t = "sf_" + name
		} else {
			t = app("sf_"+name, args...)
		}
		switch sf.Ret {
		case "U":
			return TV{V: VOpaque{T: t}}
		case "Bool":
			return TV{V: VBool{T: t}, T: boolT}
		}
		wd := specWidth(sf.Ret)
		rt := types.Type(types.Typ[types.Uint64])
		if sf.Ret == "int" {
			rt = types.Typ[types.Int]
		}
		return TV{V: VInt{T: t, W: wd}, T: rt}
	}
	if sm, ok := c.cs.Macros[name]; ok {
		if len(sm.Params) != len(x.Args) {
			fail("macro %s takes %d arguments", name, len(sm.Params))
		}
		if c.depth > 20 {
			fail("macro expansion too deep")
		}
		vars := map[string]Binding{}
		for i, p := range sm.Params {
			a := c.eval(x.Args[i])
			if a.C != nil {
				if a.C.Kind() == constant.Bool {
					vars[p] = Binding{V: VBool{T: c.boolOf(a)}, T: boolT}
				} else {
					vars[p] = Binding{V: VInt{T: constBV(a.C, 64), W: 64}, T: types.Typ[types.Int]}
				}
			} else {
				vars[p] = Binding{V: a.V, T: a.T}
			}
		}
		n := c.with(vars)
		n.depth = c.depth + 1
		body := strings.TrimSpace(sm.Body)
		if len(splitOp(body, "==>")) > 1 || len(splitOp(body, "<==>")) > 1 || strings.HasPrefix(body, "forall ") {
			return TV{V: VBool{T: n.form(body)}, T: boolT}
		}
		return n.evalSrc(body)
	}
	fail("unknown function %q in contract expression", name)
	return TV{}
}

func specWidth(s string) int {
	switch s {
	case "bv8":
		return 8
	case "bv16":
		return 16
	case "bv32":
		return 32
	case "bv64", "int", "uint":
		return 64
	}
	fail("unknown sort %q", s)
	return 0
}
