package main

// Path-by-path symbolic execution of go/ssa functions under contract.

import (
	"fmt"
	"hash/fnv"
	"go/ast"
	"go/parser"
	"go/constant"
	"go/token"
	"go/types"
	"os"
	"strings"

	"golang.org/x/tools/go/ssa"
)

type Obligation struct {
	Name    string `json:"name"`
	Class   string `json:"class"`
	Fn      string `json:"fn"`
	Pos     string `json:"pos"`
	Src     string `json:"src,omitempty"`
	Desc    string `json:"desc,omitempty"`
	Assumes []string
	Goal    string
	Expect  string // "unsat" (default) or "sat" (vacuity / cover)
	Trace   []string
	Inputs  map[string]string // parameter name -> symbol(s) for replay
	Res     SolveResult
	SMTBytes  int
	QueryFile string
}

type Exec struct {
	prog      *Prog
	w         *World
	fn        *ssa.Function
	con       *Contract
	name      string
	obls      []*Obligation
	paths     int
	maxPaths  int
	aborted   string
	frameSeq  int
	globals   map[*ssa.Global]*Obj
	entry     *State
	inputs    map[string]string
	stack     []*ssa.Function
	steps     int
	usedCons  map[string]bool // contracts (assumed or verified) used at call sites
	havocked  map[string]int  // callees treated by havoc
	inlined   map[string]int
	srcCache  map[string][]string
	exprErrs  []string
	entryTmp  *State
	coverCnt  map[string]int
	pruned    int
	unitOrd   map[string]int // call-site chain + call -> ordinal of the callee's short name across the inline tree
	unitCnt   map[string]int // short callee name -> number of static call sites across the inline tree
	unitSeq   []unitCall     // the static call sites of the inline tree in order
	root      *Frame
}

func (ex *Exec) entryContent(a *ArrObj) Content {
	if ex.entryTmp == nil {
		return nil
	}
	return ex.entryTmp.arrs[a].C
}

type Frame struct {
	id     int
	fn     *ssa.Function
	regs   map[ssa.Value]Val
	depth  int
	prefix string // obligation name prefix
	chain  string // call-site chain from the unit's frame ("" for the unit itself)
	ret    func(st *State, results []Val)
	li     *loopInfo
	sweep  map[string]bool
	con    *Contract
	params map[string]Binding
	limit  int64
}

// FState: per-frame, per-path data.
type FState struct {
	names  map[string]Binding
	defers []deferred
	cut    map[*ssa.BasicBlock]bool
	mark   map[*ssa.BasicBlock]int // len(st.sites) when the loop head was cut
}

type deferred struct {
	call *ssa.Defer
	args []Val
	fnv  Val
}

func (s *State) fstate(f *Frame) *FState {
	if s.fs == nil {
		s.fs = map[int]*FState{}
	}
	fs, ok := s.fs[f.id]
	if !ok {
		fs = &FState{names: map[string]Binding{}, cut: map[*ssa.BasicBlock]bool{}}
		s.fs[f.id] = fs
	}
	return fs
}

func (fs *FState) clone() *FState {
	n := &FState{names: make(map[string]Binding, len(fs.names)), cut: make(map[*ssa.BasicBlock]bool, len(fs.cut))}
	for k, v := range fs.names {
		n.names[k] = v
	}
	for k, v := range fs.cut {
		n.cut[k] = v
	}
	n.defers = fs.defers[:len(fs.defers):len(fs.defers)]
	return n
}

func (ex *Exec) posOf(p token.Pos) (string, string) {
	if !p.IsValid() {
		return "", ""
	}
	pos := ex.prog.SSA.Fset.Position(p)
	file := pos.Filename
	rel := strings.TrimPrefix(file, ex.prog.Root+"/")
	lines, ok := ex.srcCache[file]
	if !ok {
		if b, err := os.ReadFile(file); err == nil {
			lines = strings.Split(string(b), "\n")
		}
		ex.srcCache[file] = lines
	}
	src := ""
	if pos.Line-1 < len(lines) && pos.Line > 0 {
		src = strings.TrimSpace(lines[pos.Line-1])
	}
	return fmt.Sprintf("%s:%d", rel, pos.Line), src
}

func (ex *Exec) ectx(f *Frame, st *State) *ExprCtx {
	vars := map[string]Binding{}
	for k, v := range f.params {
		vars[k] = v
	}
	for k, v := range st.fstate(f).names {
		vars[k] = v
	}
	var pkg *types.Package
	if f.fn.Pkg != nil {
		pkg = f.fn.Pkg.Pkg
	}
	ec := &ExprCtx{w: ex.w, cs: ex.prog.CS, st: st, old: ex.entry, vars: vars, pkg: pkg, fnName: ex.prog.funcName, global: ex.globalTV(f, st)}
	if f.depth == 0 {
		ec.entry = f.params
	}
	return ec
}

// globalTV resolves package-level variables in contract expressions.
func (ex *Exec) globalTV(f *Frame, st *State) func(pkg *types.Package, name string) (TV, bool) {
	return func(pkg *types.Package, name string) (TV, bool) {
		sp := ex.prog.SSA.Package(pkg)
		if sp == nil {
			return TV{}, false
		}
		g, ok := sp.Members[name].(*ssa.Global)
		if !ok {
			return TV{}, false
		}
		p := ex.val(f, st, g).(VPtr)
		return TV{V: ex.w.load(st, p), T: under(g.Type()).(*types.Pointer).Elem()}, true
	}
}

// oblige records a proof obligation: under st.pc, goal holds. The goal is then
// assumed on the rest of the path.
func (ex *Exec) oblige(f *Frame, st *State, class, name string, goal string, pos token.Pos, desc string) {
	if st.infeasible {
		return
	}
	p, src := ex.posOf(pos)
	o := &Obligation{Name: name, Class: class, Fn: ex.name, Pos: p, Src: src, Desc: desc, Goal: goal, Inputs: ex.inputs}
	triv := goal == "true"
	for _, a := range st.pc {
		if a == goal {
			triv = true
		}
	}
	if triv {
		o.Res = SolveResult{Status: "unsat", Backend: "syntactic"}
		ex.obls = append(ex.obls, o)
		ex.addCover(st, class, name, p, src)
		return
	}
	o.Assumes = append([]string(nil), st.pc...)
	o.Trace = append([]string(nil), st.trace...)
	ex.obls = append(ex.obls, o)
	ex.addCover(st, class, name, p, src)
	st.assume(goal)
}

// addCover: vacuity guard for functional obligations. For the first few path
// instances of an ensures / assert / preserved-invariant obligation the path
// condition itself is recorded as a "cover" query that must be satisfiable for
// at least one instance: an obligation that is only ever reached on
// contradictory paths proves nothing.
func (ex *Exec) addCover(st *State, class, name, pos, src string) {
	if os.Getenv("GOVC_NO_COVER") != "" {
		return
	}
	switch class {
	case "ensures", "assert":
	case "invariant":
		if !strings.Contains(name, "#inv-preserved") {
			return
		}
	default:
		return
	}
	if ex.coverCnt == nil {
		ex.coverCnt = map[string]int{}
	}
	if ex.coverCnt[name] >= 40 {
		return
	}
	ex.coverCnt[name]++
	var pc []string
	for _, a := range st.pc {
		if !strings.Contains(a, "(forall ") {
			pc = append(pc, a)
		}
	}
	ex.obls = append(ex.obls, &Obligation{Name: name + "#cover", Class: "cover", Fn: ex.name, Pos: pos, Src: src, Goal: "false", Expect: "sat",
		Assumes: pc, Desc: "some path reaching this obligation is feasible (not vacuous)"})
}

// sweepOn: is this sweep class checked in frame f?
func (f *Frame) sweepOn(class string) bool {
	switch class {
	case "index", "slice":
		return f.sweep["bounds"]
	case "nil":
		return f.sweep["nilmem"]
	}
	return f.sweep[class]
}

func (ex *Exec) sweepName(f *Frame, in ssa.Instruction) string {
	return fmt.Sprintf("%s%s#%s#%d", ex.name, f.prefix, f.li.class[in], f.li.ordinal[in])
}

// ---------------------------------------------------------------------------

func runFunction(prog *Prog, name string, fn *ssa.Function, con *Contract) *Exec {
	ex := &Exec{prog: prog, w: newWorld(), fn: fn, con: con, name: name, maxPaths: 6000, globals: map[*ssa.Global]*Obj{},
		inputs: map[string]string{}, usedCons: map[string]bool{}, havocked: map[string]int{}, inlined: map[string]int{}, srcCache: map[string][]string{}}
	if con.MaxPaths > 0 {
		ex.maxPaths = con.MaxPaths
	}
	defer func() {
		if r := recover(); r != nil {
			if ee, ok := r.(exprErr); ok {
				ex.aborted = "contract error: " + ee.msg
				return
			}
			panic(r)
		}
	}()
	ex.w.ghostConst = prog.CS.GhostConst
	for _, g := range sortedKeys(prog.CS.GhostFields) {
		if !prog.CS.GhostConst[g] {
			ex.w.ghostMutable = append(ex.w.ghostMutable, g)
		}
	}
	st := newState()
	f := ex.newFrame(fn, nil, 0, "")
	f.con = con
	f.sweep = con.Sweep
	f.limit = con.MakeLimit
	// parameters
	sig := fn.Signature
	ex.entryTmp = st
	for i, p := range fn.Params {
		orig := OrigParam
		ex.w.initialContent = true
		v := ex.w.freshReg(st, p.Type(), p.Name(), orig)
		ex.w.initialContent = false
		if pv, ok := v.(VPtr); ok && i == 0 && sig.Recv() != nil {
			pv.Nil = "false"
			v = pv
		}
		if pv, ok := v.(VPtr); ok && (con.Nilable[p.Name()] || (i < len(con.ParamNames) && con.Nilable[con.ParamNames[i]])) {
			// callers may pass nil: treated like a pointer read from the wire
			pv.Origin = OrigMem
			v = pv
		}
		f.regs[p] = v
		f.params[p.Name()] = Binding{V: v, T: p.Type()}
		f.params[fmt.Sprintf("arg%d", i)] = Binding{V: v, T: p.Type()}
		if i < len(con.ParamNames) && con.ParamNames[i] != "_" {
			f.params[con.ParamNames[i]] = Binding{V: v, T: p.Type()}
		}
		ex.recordInput(p.Name(), v)
	}
	for _, fv := range fn.FreeVars {
		v := ex.w.freshReg(st, fv.Type(), fv.Name(), OrigKnown)
		f.regs[fv] = v
		f.params[fv.Name()] = Binding{V: v, T: under(fv.Type()).(*types.Pointer).Elem(), Addr: true}
	}
	for _, g := range con.Ghosts {
		sym := ex.w.st.fresh("ghost_"+g, bvSort(64))
		f.params[g] = Binding{V: VInt{T: sym, W: 64}, T: types.Typ[types.Int]}
		ex.inputs["ghost "+g] = sym
	}
	// axioms and requires
	ec := ex.ectx(f, st)
	ec.assume = true
	ec.old = nil
	for _, c := range append(append([]Clause{}, con.Requires...), con.Assumes...) {
		t, err := ec.formula(c.Src)
		if err != nil {
			ex.aborted = fmt.Sprintf("contract error (%s): %v", c.Line, err)
			return ex
		}
		st.assume(t)
	}
	ex.entry = st.clone()
	if len(con.Requires)+len(con.Assumes) > 0 {
		o := &Obligation{Name: name + "#vacuity", Class: "vacuity", Fn: name, Goal: "false", Expect: "sat", Assumes: append([]string(nil), st.pc...), Desc: "preconditions are satisfiable"}
		o.Pos, _ = ex.posOf(fn.Pos())
		ex.obls = append(ex.obls, o)
	}
	if con.NoPaths || len(fn.Blocks) == 0 {
		return ex
	}
	// frame: the number of static call sites of the listed callees is fixed
	ex.buildUnitOrds(fn)
	ex.root = f
	for _, callee := range sortedKeys(con.CallSites) {
		n := ex.unitCount(callee)
		// deferred and go'd calls of the unit itself
		for _, b := range fn.Blocks {
			for _, in := range b.Instrs {
				if _, isCall := in.(*ssa.Call); isCall {
					continue
				}
				if ci, ok := in.(ssa.CallInstruction); ok {
					if calleeMatches(callee, prog.calleeName(ci.Common())) {
						n++
					}
				}
			}
		}
		o := &Obligation{Name: fmt.Sprintf("%s#callsites:%s", name, callee), Class: "frame", Fn: name, Goal: "true",
			Desc: fmt.Sprintf("exactly %d call sites of %s (found %d): every one is covered by an assertion", con.CallSites[callee], callee, n)}
		o.Pos, _ = ex.posOf(fn.Pos())
		if n == con.CallSites[callee] {
			o.Res = SolveResult{Status: "unsat", Backend: "syntactic"}
		} else {
			o.Goal = "false"
			o.Res = SolveResult{Status: "sat", Backend: "syntactic", Output: o.Desc}
		}
		ex.obls = append(ex.obls, o)
	}
	ex.stack = []*ssa.Function{fn}
	ex.runFrom(f, st, fn.Blocks[0], 0, nil)
	return ex
}

type unitCall struct{ key, name string }

// calleeMatches: a contract names a callee by its last component ("Sign") or,
// where that is ambiguous, by a qualified suffix ("Sign1.Sign", "kex.Suite.New").
func calleeMatches(pat, full string) bool {
	return full == pat || strings.HasSuffix(full, "."+pat) || strings.HasSuffix(full, "/"+pat)
}

// unitOrdinal: the ordinal of the call site `key` among the static call sites of
// the inline tree whose callee matches pat (0 if it is not one of them).
func (ex *Exec) unitOrdinal(pat, key string) int {
	n := 0
	for _, c := range ex.unitSeq {
		if calleeMatches(pat, c.name) {
			n++
			if c.key == key {
				return n
			}
		}
	}
	return 0
}

func (ex *Exec) unitCount(pat string) int {
	n := 0
	for _, c := range ex.unitSeq {
		if calleeMatches(pat, c.name) {
			n++
		}
	}
	return n
}

// aliasLocal binds, in the unit's own frame, the names the contract recorded for
// the SSA value v (by structural descriptor) in addition to its source name.
func (ex *Exec) aliasLocal(f *Frame, fs *FState, v ssa.Value, b Binding, srcName string) {
	if f.depth != 0 || ex.con == nil || len(ex.con.LocalDefs) == 0 {
		return
	}
	d, ok := ex.prog.valueDescs(f.fn)[v]
	if !ok {
		return
	}
	if b.Addr {
		d = "addr:" + d // the name stands for the variable stored at v, not for the pointer v
	}
	for _, n := range ex.con.LocalDefs[d] {
		if n == srcName {
			continue
		}
		if old, ok := fs.names[n]; ok && old.Addr && !b.Addr {
			continue
		}
		fs.names[n] = b
	}
}

// buildUnitOrds numbers the static call sites of the unit per callee short name
// across the tree of helpers that will be inlined (block order, depth first).
// Anchoring callassert/callsites on these numbers makes "extract these lines
// into a helper" a harmless edit: the call keeps its ordinal.
func (ex *Exec) buildUnitOrds(fn *ssa.Function) {
	ex.unitOrd, ex.unitCnt, ex.unitSeq = map[string]int{}, map[string]int{}, nil
	var walk func(fn *ssa.Function, chain string, depth int, stack []*ssa.Function)
	walk = func(fn *ssa.Function, chain string, depth int, stack []*ssa.Function) {
		for _, b := range fn.Blocks {
			for _, in := range b.Instrs {
				switch sx := in.(type) {
				case *ssa.MapUpdate:
					ex.unitCnt["mapupdate"]++
					key := chain + fmt.Sprintf("%p", sx)
					ex.unitOrd[key] = ex.unitCnt["mapupdate"]
					ex.unitSeq = append(ex.unitSeq, unitCall{key: key, name: "mapupdate"})
				case *ssa.MakeChan:
					ex.unitCnt["makechan"]++
					key := chain + fmt.Sprintf("%p", sx)
					ex.unitOrd[key] = ex.unitCnt["makechan"]
					ex.unitSeq = append(ex.unitSeq, unitCall{key: key, name: "makechan"})
				case *ssa.Send:
					ex.unitCnt["chansend"]++
					key := chain + fmt.Sprintf("%p", sx)
					ex.unitOrd[key] = ex.unitCnt["chansend"]
					ex.unitSeq = append(ex.unitSeq, unitCall{key: key, name: "chansend"})
				case *ssa.Select:
					for k, ss := range sx.States {
						if ss.Dir == types.SendOnly {
							ex.unitCnt["chansend"]++
							key := chain + fmt.Sprintf("%p#%d", sx, k)
							ex.unitOrd[key] = ex.unitCnt["chansend"]
							ex.unitSeq = append(ex.unitSeq, unitCall{key: key, name: "chansend"})
						}
					}
				}
				x, ok := in.(*ssa.Call)
				if !ok {
					continue
				}
				c := x.Common()
				if bi, isB := c.Value.(*ssa.Builtin); isB {
					if bi.Name() == "close" {
						ex.unitCnt["chanclose"]++
						key := chain + fmt.Sprintf("%p", x)
						ex.unitOrd[key] = ex.unitCnt["chanclose"]
						ex.unitSeq = append(ex.unitSeq, unitCall{key: key, name: "chanclose"})
					}
					continue
				}
				name := ex.prog.calleeName(c)
				callee := c.StaticCallee()
				if callee != nil {
					name = ex.prog.funcName(callee)
					if o := callee.Origin(); o != nil {
						callee = o
					}
				}
				short := name
				if k := strings.LastIndex(short, "."); k >= 0 {
					short = short[k+1:]
				}
				ex.unitCnt[short]++
				key := chain + fmt.Sprintf("%p", x)
				ex.unitOrd[key] = ex.unitCnt[short]
				ex.unitSeq = append(ex.unitSeq, unitCall{key: key, name: name})
				if callee == nil || len(callee.Blocks) == 0 || depth >= 4 {
					continue
				}
				onStack := false
				for _, s := range stack {
					if s == callee {
						onStack = true
					}
				}
				if onStack {
					continue
				}
				con := ex.prog.CS.ByName[name]
				if con != nil && con.sweepOnly() {
					con = nil
				}
				inl := false
				if con != nil && con.Inline {
					inl = true
				} else if con == nil && !ex.prog.CS.isPure(name) && ex.inModule(callee) && len(ex.prog.loopInfo(callee).headers) == 0 && instrCount(callee) <= 100 && depth < 3 {
					inl = true
				}
				if inl {
					walk(callee, key+"/", depth+1, append(stack, callee))
				}
			}
		}
	}
	walk(fn, "", 0, []*ssa.Function{fn})
}

func (ex *Exec) recordInput(name string, v Val) {
	switch x := v.(type) {
	case VInt:
		ex.inputs[name] = x.T
	case VBool:
		ex.inputs[name] = x.T
	case VSlice:
		ex.inputs[name+".len"] = x.Len
		if c := ex.entryContent(x.A); c != nil {
			for k := 0; k < 48; k++ {
				ex.inputs[fmt.Sprintf("%s[%d]", name, k)] = c.Sel(bvLit(uint64(k), 64))
			}
		}
	case VStr:
		ex.inputs[name+".len"] = x.Len
		for k := 0; k < 48; k++ {
			ex.inputs[fmt.Sprintf("%s[%d]", name, k)] = x.C.Sel(bvLit(uint64(k), 64))
		}
	}
}

func (ex *Exec) newFrame(fn *ssa.Function, parent *Frame, depth int, prefix string) *Frame {
	ex.frameSeq++
	return &Frame{id: ex.frameSeq, fn: fn, regs: map[ssa.Value]Val{}, depth: depth, prefix: prefix, li: ex.prog.loopInfo(fn),
		sweep: map[string]bool{}, params: map[string]Binding{}}
}

// ---------------------------------------------------------------------------
// Operands.

func (ex *Exec) val(f *Frame, st *State, v ssa.Value) Val {
	switch x := v.(type) {
	case *ssa.Const:
		return ex.constVal(st, x)
	case *ssa.Global:
		o, ok := ex.globals[x]
		if !ok {
			o = ex.w.newObj(under(x.Type()).(*types.Pointer).Elem(), "g_"+x.Name())
			ex.globals[x] = o
		}
		if _, ok := st.mem[o]; !ok {
			ex.initGlobal(st, x, o)
		}
		return VPtr{Root: o, Nil: "false", Origin: OrigKnown}
	case *ssa.Function:
		return VFunc{Fn: x}
	case *ssa.Builtin:
		return VOpaque{T: "u_nil"}
	}
	if r, ok := f.regs[v]; ok {
		return r
	}
	// A value not computed on this path (should not happen): be sound.
	ex.w.note("read of unset register " + v.Name())
	if os.Getenv("GOVC_DEBUG") != "" {
		fmt.Fprintf(os.Stderr, "unset register %s = %s in %s\n", v.Name(), v.String(), f.fn.String())
	}
	r := ex.w.freshReg(st, v.Type(), "unset_"+v.Name(), OrigCall)
	f.regs[v] = r
	return r
}

func (ex *Exec) constVal(st *State, c *ssa.Const) Val {
	t := c.Type()
	if c.Value == nil {
		return ex.w.zero(st, t)
	}
	if wd, ok := scalarWidth(t); ok {
		return VInt{T: constBV(c.Value, wd), W: wd}
	}
	switch c.Value.Kind() {
	case constant.Bool:
		if constant.BoolVal(c.Value) {
			return VBool{T: "true"}
		}
		return VBool{T: "false"}
	case constant.String:
		s := constant.StringVal(c.Value)
		return VStr{C: ex.w.constStr(s), Off: bvLit(0, 64), Len: bvLit(uint64(len(s)), 64)}
	}
	// floats, complex
	return VOpaque{T: ex.w.st.declare("const_"+sanitize(c.Value.ExactString()), nil, sortU)}
}

func (ex *Exec) tv(f *Frame, st *State, v ssa.Value) TV {
	return TV{V: ex.val(f, st, v), T: v.Type()}
}

// ---------------------------------------------------------------------------
// Main loop.

func (ex *Exec) runFrom(f *Frame, st *State, b *ssa.BasicBlock, idx int, prev *ssa.BasicBlock) {
	for {
		if ex.aborted != "" {
			return
		}
		if st.infeasible {
			// contradictory path condition: the path does not exist
			ex.pruned++
			return
		}
		if idx == 0 {
			if !ex.enterBlock(f, st, b, prev) {
				return
			}
		}
		var term ssa.Instruction
		for i := idx; i < len(b.Instrs); i++ {
			in := b.Instrs[i]
			if _, ok := in.(*ssa.Phi); ok {
				continue
			}
			ex.steps++
			if ex.steps > 3000000 {
				ex.aborted = "step limit"
				return
			}
			switch x := in.(type) {
			case *ssa.If, *ssa.Jump, *ssa.Return, *ssa.Panic:
				term = in
			case *ssa.Call:
				if ex.call(f, st, x, b, i, prev) {
					return // continuation took over
				}
			case *ssa.RunDefers:
				if ex.runDefers(f, st, b, i, prev) {
					return
				}
			case *ssa.UnOp:
				// a load at a symbolic index from a small array whose elements are
				// all known (e.g. ranging over []*T{&a, &b, &c}): one path per element
				if alts := ex.loadAlternatives(f, st, x); len(alts) > 1 {
					for k, a := range alts {
						st2 := st
						if k < len(alts)-1 {
							st2 = st.clone()
						}
						st2.assume(a.cond)
						f.regs[x] = a.val
						ex.runFrom(f, st2, b, i+1, prev)
					}
					return
				}
				if !ex.step(f, st, in) {
					ex.endPath()
					return
				}
			default:
				if !ex.step(f, st, in) {
					ex.endPath()
					return
				}
			}
			if term != nil {
				break
			}
		}
		switch x := term.(type) {
		case *ssa.Jump:
			prev, b, idx = b, b.Succs[0], 0
			continue
		case *ssa.If:
			c, _ := ex.val(f, st, x.Cond).(VBool)
			pos, _ := ex.posOf(x.Cond.Pos())
			if pos == "" {
				pos, _ = ex.posOf(lastPos(b))
			}
			switch c.T {
			case "true":
				prev, b, idx = b, b.Succs[0], 0
				continue
			case "false":
				prev, b, idx = b, b.Succs[1], 0
				continue
			}
			st2 := st.clone()
			st.assume(c.T)
			st.trace = append(st.trace, pos+" T")
			st2.assume(mkNot(c.T))
			st2.trace = append(st2.trace, pos+" F")
			ex.runFrom(f, st, b.Succs[0], 0, b)
			ex.runFrom(f, st2, b.Succs[1], 0, b)
			return
		case *ssa.Return:
			var res []Val
			for _, r := range x.Results {
				res = append(res, ex.val(f, st, r))
			}
			if f.ret != nil {
				f.ret(st, res)
				return
			}
			ex.atReturn(f, st, x, res)
			ex.endPath()
			return
		case *ssa.Panic:
			if f.sweepOn("panic") {
				ex.oblige(f, st, "panic", ex.sweepName(f, x), "false", x.Pos(), "explicit panic is unreachable")
			}
			ex.endPath()
			return
		default:
			// block without terminator (unreachable)
			ex.endPath()
			return
		}
	}
}

func lastPos(b *ssa.BasicBlock) token.Pos {
	for i := len(b.Instrs) - 1; i >= 0; i-- {
		if p := b.Instrs[i].Pos(); p.IsValid() {
			return p
		}
	}
	return token.NoPos
}

func cloneFS(m map[int]*FState) map[int]*FState {
	n := make(map[int]*FState, len(m))
	for k, v := range m {
		n[k] = v.clone()
	}
	return n
}

func (ex *Exec) endPath() {
	ex.paths++
	if ex.paths > ex.maxPaths && ex.aborted == "" {
		ex.aborted = fmt.Sprintf("path limit %d exceeded", ex.maxPaths)
	}
}

// enterBlock evaluates phis and handles loop headers. Returns false if the
// path ends here (back edge).
func (ex *Exec) enterBlock(f *Frame, st *State, b, prev *ssa.BasicBlock) bool {
	fs := st.fstate(f)
	// phis (simultaneous)
	var phis []*ssa.Phi
	var vals []Val
	if prev != nil {
		pi := -1
		for i, p := range b.Preds {
			if p == prev {
				pi = i
				break
			}
		}
		for _, in := range b.Instrs {
			phi, ok := in.(*ssa.Phi)
			if !ok {
				break
			}
			phis = append(phis, phi)
			vals = append(vals, ex.val(f, st, phi.Edges[pi]))
		}
	}
	// source names of phis: the DebugRef that follows them in the block
	phiName := map[*ssa.Phi]string{}
	for _, in := range b.Instrs {
		if dr, ok := in.(*ssa.DebugRef); ok && !dr.IsAddr {
			if ph, ok := dr.X.(*ssa.Phi); ok && ph.Block() == b {
				if id, ok := dr.Expr.(*ast.Ident); ok {
					if _, dup := phiName[ph]; !dup {
						phiName[ph] = id.Name
					}
				}
			}
		}
	}
	ld := f.li.headers[b]
	if ld == nil {
		for i, phi := range phis {
			f.regs[phi] = vals[i]
			if phi.Comment != "" {
				fs.names[phi.Comment] = Binding{V: vals[i], T: phi.Type()}
			}
			if n := phiName[phi]; n != "" {
				fs.names[n] = Binding{V: vals[i], T: phi.Type()}
			}
			ex.aliasLocal(f, fs, phi, Binding{V: vals[i], T: phi.Type()}, phiName[phi])
		}
		return true
	}
	invs := []Clause(nil)
	if f.con != nil {
		invs = f.con.Invariants[ld.ord]
	}
	bindPhis := func(vs []Val) {
		for i, phi := range phis {
			f.regs[phi] = vs[i]
			if phi.Comment != "" {
				fs.names[phi.Comment] = Binding{V: vs[i], T: phi.Type()}
			}
			if n := phiName[phi]; n != "" {
				fs.names[n] = Binding{V: vs[i], T: phi.Type()}
			}
			ex.aliasLocal(f, fs, phi, Binding{V: vs[i], T: phi.Type()}, phiName[phi])
		}
	}
	checkInv := func(kind string) {
		ec := ex.ectx(f, st)
		for k, c := range invs {
			t, err := ec.formula(c.Src)
			if err != nil {
				ex.aborted = fmt.Sprintf("contract error (%s): %v", c.Line, err)
				return
			}
			ex.oblige(f, st, "invariant", fmt.Sprintf("%s%s#inv-%s:loop%d#%d", ex.name, f.prefix, kind, ld.ord, k+1), t, b.Instrs[0].Pos(), c.Src)
		}
	}
	autos := ex.autoInvariants(f, b, ld, phis)
	checkAuto := func(kind string) {
		for _, a := range autos {
			t := a.term(f, st, ex)
			if t != "" {
				ex.oblige(f, st, "invariant", fmt.Sprintf("%s%s#autoinv-%s:loop%d#%s", ex.name, f.prefix, kind, ld.ord, a.name), t, b.Instrs[0].Pos(), a.desc)
			}
		}
	}
	if fs.cut[b] {
		// back edge: invariant preserved. The registers are shared between
		// paths: restore the loop-head values afterwards, sibling paths (the loop
		// exit) still read them.
		saved := make([]Val, len(phis))
		for i, phi := range phis {
			saved[i] = f.regs[phi]
		}
		bindPhis(vals)
		checkAuto("preserved")
		checkInv("preserved")
		if f.con != nil {
			// everyiter: this completed iteration passed a site of each listed callee
			for _, pat := range f.con.EveryIter[ld.ord] {
				seen := false
				for _, sname := range st.sites[min(fs.mark[b], len(st.sites)):] {
					if calleeMatches(pat, sname) {
						seen = true
					}
				}
				goal := "true"
				if !seen {
					goal = "false"
				}
				pos := f.fn.Pos()
				for _, in := range b.Instrs {
					if in.Pos().IsValid() {
						pos = in.Pos()
						break
					}
				}
				ex.oblige(f, st, "assert", fmt.Sprintf("%s%s#everyiter:loop%d:%s", ex.name, f.prefix, ld.ord, pat), goal, pos,
					fmt.Sprintf("every completed iteration of loop#%d passes a site of %s (no path around it back to the loop head)", ld.ord, pat))
			}
		}
		for i, phi := range phis {
			f.regs[phi] = saved[i]
		}
		ex.endPath()
		return false
	}
	// first arrival
	bindPhis(vals)
	checkAuto("entry")
	checkInv("entry")
	fs.cut[b] = true
	if fs.mark == nil {
		fs.mark = map[*ssa.BasicBlock]int{}
	}
	fs.mark[b] = len(st.sites)
	st.mapEpoch++
	// havoc loop-carried registers
	fresh := make([]Val, len(phis))
	for i, phi := range phis {
		fresh[i] = ex.w.freshReg(st, phi.Type(), "loop_"+phi.Comment, OrigCall)
		if pv, ok := vals[i].(VPtr); ok {
			// keep pointer provenance class
			if nv, ok2 := fresh[i].(VPtr); ok2 {
				nv.Origin = pv.Origin
				fresh[i] = nv
			}
		}
	}
	bindPhis(fresh)
	// havoc memory written in the loop
	for a := range ld.stored {
		if p, ok := f.regs[a].(VPtr); ok && p.Root != nil {
			if cur, ok := st.mem[p.Root]; ok {
				st.mem[p.Root] = ex.w.havocMem(st, cur, p.Root.Typ, p.Root.Name)
			}
		}
	}
	if ld.wild {
		keep := map[*Obj]bool{}
		for _, blk := range f.fn.Blocks {
			for _, in := range blk.Instrs {
				if a, ok := in.(*ssa.Alloc); ok && !f.li.escapes[a] {
					if p, ok := f.regs[a].(VPtr); ok && p.Root != nil {
						keep[p.Root] = true
					}
				}
			}
		}
		mayChange := func(t types.Type) bool {
			if ld.calls {
				return true
			}
			for _, w := range ld.stTyps {
				if typeHolds(t, w, 0) {
					return true
				}
			}
			return false
		}
		for o, cur := range st.mem {
			if !keep[o] && mayChange(o.Typ) {
				st.mem[o] = ex.w.havocMem(st, cur, o.Typ, o.Name)
			}
		}
		for a := range st.arrs {
			if mayChange(a.Elem) {
				st.arrs[a] = ex.w.freshArrState(a.Elem, a.Sym)
			}
		}
	} else if ld.arrs {
		// the loop only writes elements of scalar slices: backing arrays of
		// scalars change, nothing else does
		for a := range st.arrs {
			if _, ok := scalarWidth(a.Elem); ok {
				st.arrs[a] = ex.w.freshArrState(a.Elem, a.Sym)
			}
		}
	}
	// assume invariants
	for _, a := range autos {
		if t := a.term(f, st, ex); t != "" {
			st.assume(t)
		}
	}
	ec := ex.ectx(f, st)
	ec.assume = true
	for _, c := range invs {
		t, err := ec.formula(c.Src)
		if err != nil {
			ex.aborted = fmt.Sprintf("contract error (%s): %v", c.Line, err)
			return false
		}
		if os.Getenv("GOVC_DEBUG") != "" {
			fmt.Fprintf(os.Stderr, "assume inv %s => %s\n", c.Src, t)
		}
		st.assume(t)
	}
	return true
}

// atReturn checks the postconditions of the function under contract.
func (ex *Exec) atReturn(f *Frame, st *State, ret *ssa.Return, res []Val) {
	if f.con != nil && (f.con.HasMod || f.con.Pure) {
		ex.checkFrame(f, st, ret)
	}
	if f.con == nil || len(f.con.Ensures) == 0 {
		return
	}
	ec := ex.ectx(f, st)
	// ensures speak about parameters (entry values) and results only
	vars := map[string]Binding{}
	for k, v := range st.fstate(f).names {
		vars[k] = v
	}
	for k, v := range f.params {
		vars[k] = v
	}
	bindResults(vars, f.fn.Signature, res)
	ec.vars = vars
	for k, c := range f.con.Ensures {
		if c.Trusted {
			continue
		}
		lbl := c.Label
		if lbl == "" {
			lbl = fmt.Sprint(k + 1)
		}
		t, err := ec.formula(c.Src)
		if err != nil && c.Optional {
			// The clause speaks about a local that does not exist (or has another
			// type) on this path. For "A ==> B" with A evaluable this path must
			// then not satisfy A: returning successfully before the values that
			// justify the success even exist (a check moved below an early return)
			// is a violation, not a reason to skip the clause.
			if parts := splitOp(c.Src, "==>"); len(parts) == 2 && strings.Contains(err.Error(), "unknown identifier") {
				if a, err2 := ec.formula(parts[0]); err2 == nil {
					ex.oblige(f, st, "ensures", fmt.Sprintf("%s#ensures#%s#nolocal", ex.name, lbl), mkNot(a), ret.Pos(),
						c.Src+"   [the consequent's values do not exist on this path: its antecedent must be false here]")
				}
			}
			continue
		}
		if err != nil {
			ex.aborted = fmt.Sprintf("contract error (%s): %v", c.Line, err)
			return
		}
		ex.oblige(f, st, "ensures", fmt.Sprintf("%s#ensures#%s", ex.name, lbl), t, ret.Pos(), c.Src)
	}
}

func bindResults(vars map[string]Binding, sig *types.Signature, res []Val) {
	rs := sig.Results()
	for i := 0; i < rs.Len() && i < len(res); i++ {
		b := Binding{V: res[i], T: rs.At(i).Type()}
		vars[fmt.Sprintf("result%d", i)] = b
		if n := rs.At(i).Name(); n != "" && n != "_" {
			vars[n] = b
		}
		if i == rs.Len()-1 && types.TypeString(rs.At(i).Type(), nil) == "error" {
			vars["err"] = b
		}
	}
	if rs.Len() >= 1 && len(res) >= 1 {
		vars["result"] = Binding{V: res[0], T: rs.At(0).Type()}
	}
}

// ---------------------------------------------------------------------------
// Single instructions. Returns false if the path cannot continue.

func (ex *Exec) derefCheck(f *Frame, st *State, p VPtr, in ssa.Instruction) {
	if p.Nil == "false" {
		return
	}
	if p.Origin == OrigMem && f.sweepOn("nil") {
		ex.oblige(f, st, "nil", ex.sweepName(f, in), mkNot(p.Nil), in.Pos(), "pointer loaded from memory is not nil when dereferenced")
	} else {
		st.assume(mkNot(p.Nil))
	}
}

func (ex *Exec) idx64(f *Frame, st *State, v ssa.Value) string {
	iv, ok := ex.val(f, st, v).(VInt)
	if !ok {
		return ex.w.st.fresh("idx", bvSort(64))
	}
	return convInt(iv.T, iv.W, 64, isSigned(v.Type()))
}

func inRange(i, n string) string {
	// 0 <= i < n  (signed), n >= 0: equivalent to unsigned i < n
	return app("bvult", i, n)
}

func (ex *Exec) step(f *Frame, st *State, in ssa.Instruction) bool {
	w := ex.w
	switch x := in.(type) {
	case *ssa.DebugRef:
		if id, ok := x.Expr.(*ast.Ident); ok && id.Name != "_" {
			if fv, isVar := x.Object().(*types.Var); isVar && fv.IsField() {
				// the selector of x.f: a field name, not a variable of the function
				break
			}
			fs := st.fstate(f)
			v := ex.val(f, st, x.X)
			if x.IsAddr {
				if pt, ok := under(x.X.Type()).(*types.Pointer); ok {
					fs.names[id.Name] = Binding{V: v, T: pt.Elem(), Addr: true}
					ex.aliasLocal(f, fs, x.X, fs.names[id.Name], id.Name)
				}
			} else if old, ok := fs.names[id.Name]; !ok || !old.Addr {
				// a variable living in memory keeps its address binding
				fs.names[id.Name] = Binding{V: v, T: x.X.Type()}
				ex.aliasLocal(f, fs, x.X, fs.names[id.Name], id.Name)
			}
		}
	case *ssa.Alloc:
		et := under(x.Type()).(*types.Pointer).Elem()
		o := w.newObj(et, x.Comment)
		o.Local = true // a fresh allocation: distinct from every other object
		st.mem[o] = w.toMem(st, w.zero(st, et), nil)
		f.regs[x] = VPtr{Root: o, Nil: "false", Origin: OrigKnown}
		if x.Comment != "" && !strings.Contains(x.Comment, " ") && !strings.Contains(x.Comment, ".") {
			st.fstate(f).names[x.Comment] = Binding{V: f.regs[x], T: et, Addr: true}
		}
		ex.aliasLocal(f, st.fstate(f), x, Binding{V: f.regs[x], T: et, Addr: true}, x.Comment)
	case *ssa.BinOp:
		f.regs[x] = ex.binop(f, st, x)
	case *ssa.UnOp:
		return ex.unop(f, st, x)
	case *ssa.ChangeType:
		f.regs[x] = ex.val(f, st, x.X)
	case *ssa.ChangeInterface:
		f.regs[x] = ex.val(f, st, x.X)
	case *ssa.Convert:
		f.regs[x] = ex.convert(f, st, x)
	case *ssa.MultiConvert:
		f.regs[x] = w.freshReg(st, x.Type(), "conv", OrigCall)
	case *ssa.Extract:
		if t, ok := ex.val(f, st, x.Tuple).(VTuple); ok && x.Index < len(t.F) {
			f.regs[x] = t.F[x.Index]
		} else {
			f.regs[x] = w.freshReg(st, x.Type(), "extract", OrigCall)
		}
	case *ssa.Field:
		if s, ok := ex.val(f, st, x.X).(VStruct); ok {
			f.regs[x] = s.F[x.Field]
		} else {
			f.regs[x] = w.freshReg(st, x.Type(), "field", OrigMem)
		}
	case *ssa.FieldAddr:
		p, ok := ex.val(f, st, x.X).(VPtr)
		if !ok {
			f.regs[x] = w.freshReg(st, x.Type(), "fieldaddr", OrigCall)
			break
		}
		ex.derefCheck(f, st, p, x)
		np := p
		np.Path = append(append([]PathElem(nil), p.Path...), PathElem{Field: x.Field})
		np.Nil = "false"
		np.Origin = OrigKnown
		f.regs[x] = np
	case *ssa.IndexAddr:
		return ex.indexAddr(f, st, x)
	case *ssa.Index:
		i := ex.idx64(f, st, x.Index)
		switch a := ex.val(f, st, x.X).(type) {
		case VArrVal:
			if f.sweepOn("index") {
				ex.oblige(f, st, "index", ex.sweepName(f, x), inRange(i, bvLit(uint64(a.N), 64)), x.Pos(), "array index in range")
			} else {
				st.assume(inRange(i, bvLit(uint64(a.N), 64)))
			}
			if wd, ok := scalarWidth(a.E); ok {
				f.regs[x] = VInt{T: a.S.C.Sel(i), W: wd}
			} else if e, ok := a.S.Elems[i]; ok && e != nil {
				f.regs[x] = w.snapshot(st, e)
			} else {
				f.regs[x] = w.freshReg(st, x.Type(), "elem", OrigMem)
			}
		default:
			f.regs[x] = w.freshReg(st, x.Type(), "elem", OrigMem)
		}
	case *ssa.Lookup:
		switch a := ex.val(f, st, x.X).(type) {
		case VStr:
			i := ex.idx64(f, st, x.Index)
			if f.sweepOn("index") {
				ex.oblige(f, st, "index", ex.sweepName(f, x), inRange(i, a.Len), x.Pos(), "string index in range")
			} else {
				st.assume(inRange(i, a.Len))
			}
			f.regs[x] = VInt{T: a.C.Sel(bvAdd(a.Off, i)), W: 8}
		default:
			f.regs[x] = ex.mapLookup(f, st, x)
		}
	case *ssa.Slice:
		return ex.sliceOp(f, st, x)
	case *ssa.SliceToArrayPointer:
		s, ok := ex.val(f, st, x.X).(VSlice)
		at := under(under(x.Type()).(*types.Pointer).Elem()).(*types.Array)
		if !ok {
			f.regs[x] = w.freshReg(st, x.Type(), "s2a", OrigCall)
			break
		}
		n := bvLit(uint64(at.Len()), 64)
		goal := app("bvsle", n, s.Len)
		if f.sweepOn("slice") {
			ex.oblige(f, st, "slice", ex.sweepName(f, x), goal, x.Pos(), "slice long enough for array conversion")
		} else {
			st.assume(goal)
		}
		f.regs[x] = VPtr{Arr: s.A, Idx: s.Off, Nil: "false", Origin: OrigKnown, Path: []PathElem{{Field: -1, Idx: n}}}
	case *ssa.MakeSlice:
		l := ex.idx64(f, st, x.Len)
		c := ex.idx64(f, st, x.Cap)
		goal := mkAnd(app("bvsle", bvLit(0, 64), l), app("bvsle", l, c))
		lim := f.limit
		if lim > 0 {
			goal = mkAnd(goal, app("bvsle", c, bvLit(uint64(lim), 64)))
		} else {
			goal = mkAnd(goal, app("bvslt", c, bvLit(1<<maxLenBits, 64)))
		}
		if f.sweepOn("make") {
			ex.oblige(f, st, "make", ex.sweepName(f, x), goal, x.Pos(), "make size non-negative and within the allocation limit")
		} else {
			st.assume(mkAnd(app("bvsle", bvLit(0, 64), l), app("bvsle", l, c), app("bvslt", c, bvLit(1<<maxLenBits, 64))))
		}
		et := under(x.Type()).(*types.Slice).Elem()
		a := w.newArr(et, "make")
		st.arrs[a] = w.zeroArrState(et)
		f.regs[x] = VSlice{A: a, Off: bvLit(0, 64), Len: l, Cap: c, Nil: "false"}
	case *ssa.MakeMap, *ssa.MakeChan:
		v := in.(ssa.Value)
		u := w.st.fresh("mk", sortU)
		st.assume(mkNot(mkEq(u, w.zeroU(v.Type()))))
		if _, isMap := in.(*ssa.MakeMap); isMap {
			// made by this function (contract expressions: allochere(m))
			st.assume(app(w.st.declare("alloc_here", []string{sortU}, sortBool), u))
		}
		f.regs[v] = VOpaque{T: u}
		if mc, isChan := in.(*ssa.MakeChan); isChan {
			// pseudo-callee "makechan": arg0 = the capacity the channel is made with
			st.sites = append(st.sites, "makechan")
			ex.callAsserts(f, st, mc, "makechan", 0, map[string]Binding{"arg0": {V: ex.val(f, st, mc.Size), T: mc.Size.Type()}}, "")
		}
	case *ssa.MakeClosure:
		var bs []Val
		for _, b := range x.Bindings {
			bs = append(bs, ex.val(f, st, b))
		}
		f.regs[x] = VFunc{Fn: x.Fn, Bindings: bs}
	case *ssa.MakeInterface:
		xv := ex.val(f, st, x.X)
		if pv, ok := xv.(VPtr); ok && pv.IDU && pv.U != "" {
			// a pointer taken out of an interface goes back in: same identity
			f.regs[x] = VIface{U: pv.U, Concrete: x.X.Type(), Val: xv}
			break
		}
		if pv, ok := xv.(VPtr); ok && (pv.Root != nil || pv.Arr != nil) {
			// a pointer in an interface: the interface value is identified by the pointer
			idp := pv
			idp.Nil = "false"
			u := w.ptrID(idp)
			st.assume(mkNot(mkEq(u, "nil_iface")))
			f.regs[x] = VIface{U: u, Concrete: x.X.Type(), Val: xv}
			break
		}
		u := w.st.fresh("iface", sortU)
		st.assume(mkNot(mkEq(u, "nil_iface")))
		f.regs[x] = VIface{U: u, Concrete: x.X.Type(), Val: xv}
	case *ssa.MapUpdate:
		// maps are abstract: uninterpreted in (map identity, epoch, key). An
		// update starts a new epoch in which the written key has the written
		// value; nothing is retained about the other keys.
		st.mapEpoch++
		st.sites = append(st.sites, "mapupdate")
		ex.callAsserts(f, st, x, "mapupdate", 0, map[string]Binding{
			"arg0": {V: ex.val(f, st, x.Map), T: x.Map.Type()},
			"arg1": {V: ex.val(f, st, x.Key), T: x.Key.Type()},
			"arg2": {V: ex.val(f, st, x.Value), T: x.Value.Type()},
		}, "")
		if mt, ok := under(x.Map.Type()).(*types.Map); ok {
			mu, ku := w.fold(st, ex.val(f, st, x.Map)), w.fold(st, ex.val(f, st, x.Key))
			ep := bvLit(uint64(st.mapEpoch), 64)
			switch v := ex.val(f, st, x.Value).(type) {
			case VInt:
				if wd, ok := scalarWidth(mt.Elem()); ok && wd == v.W {
					fn := w.st.declare(fmt.Sprintf("map_get%d", wd), []string{sortU, bvSort(64), sortU}, bvSort(wd))
					st.assume(mkEq(app(fn, mu, ep, ku), v.T))
				}
			case VBool:
				fn := w.st.declare("map_getb", []string{sortU, bvSort(64), sortU}, sortBool)
				st.assume(mkEq(app(fn, mu, ep, ku), v.T))
			default:
				// any other value: as an uninterpreted term (contract expressions: mapval(m, k))
				fn := w.st.declare("map_getU", []string{sortU, bvSort(64), sortU}, sortU)
				iv, isIface := v.(VIface)
				if isIface && iv.Val != nil {
					st.assume(mkEq(app(fn, mu, ep, ku), w.fold(st, iv.Val)))
				} else {
					st.assume(mkEq(app(fn, mu, ep, ku), w.fold(st, v)))
				}
			}
			has := w.st.declare("map_has", []string{sortU, bvSort(64), sortU}, sortBool)
			st.assume(app(has, mu, ep, ku))
		}
	case *ssa.Next:
		f.regs[x] = w.freshReg(st, x.Type(), "next", OrigMem)
	case *ssa.Range:
		f.regs[x] = VOpaque{T: w.st.fresh("range", sortU)}
	case *ssa.Select:
		w.note("select (outside the subset)")
		f.regs[x] = w.freshReg(st, x.Type(), "select", OrigMem)
		// which case fires is arbitrary, but it is one of the cases (a blocking
		// select never yields an index outside them; -1 is the default case)
		if t, ok := f.regs[x].(VTuple); ok && len(t.F) > 0 {
			if iv, ok := t.F[0].(VInt); ok {
				lo := int64(0)
				if !x.Blocking {
					lo = -1
				}
				st.assume(mkAnd(app("bvsle", bvLitI(lo, iv.W), iv.T), app("bvslt", iv.T, bvLitI(int64(len(x.States)), iv.W))))
				// a send case that fires is a "chansend" site (guarded by its index)
				for k, ss := range x.States {
					if ss.Dir != types.SendOnly {
						continue
					}
					pbs := map[string]Binding{
						"arg0": {V: ex.val(f, st, ss.Chan), T: ss.Chan.Type()},
						"arg1": {V: ex.val(f, st, ss.Send), T: ss.Send.Type()},
					}
					ex.callAssertsAt(f, st, x, fmt.Sprintf("%p#%d", x, k), "chansend", 0, pbs, mkEq(iv.T, bvLitI(int64(k), iv.W)))
				}
			}
		}
	case *ssa.Send:
		// the send itself (blocking, hand-off) is outside the subset; what is sent
		// on which channel can be pinned by callassert/callsites on "chansend"
		w.note("channel send (outside the subset)")
		pbs := map[string]Binding{
			"arg0": {V: ex.val(f, st, x.Chan), T: x.Chan.Type()},
			"arg1": {V: ex.val(f, st, x.X), T: x.X.Type()},
		}
		st.sites = append(st.sites, "chansend")
		ex.callAsserts(f, st, x, "chansend", 0, pbs, "")
	case *ssa.Go:
		w.note("go statement (outside the subset)")
		st.mapEpoch++
		seen := map[interface{}]bool{}
		for _, a := range x.Call.Args {
			w.havocReach(st, ex.val(f, st, a), seen)
		}
		if !x.Call.IsInvoke() {
			w.havocReach(st, ex.val(f, st, x.Call.Value), seen)
		}
	case *ssa.Defer:
		fs := st.fstate(f)
		d := deferred{call: x}
		for _, a := range x.Call.Args {
			d.args = append(d.args, ex.val(f, st, a))
		}
		d.fnv = ex.val(f, st, x.Call.Value)
		fs.defers = append(fs.defers[:len(fs.defers):len(fs.defers)], d)
	case *ssa.Store:
		p, ok := ex.val(f, st, x.Addr).(VPtr)
		if !ok {
			break
		}
		ex.derefCheck(f, st, p, x)
		w.store(st, p, ex.val(f, st, x.Val))
	case *ssa.TypeAssert:
		return ex.typeAssert(f, st, x)
	default:
		if v, ok := in.(ssa.Value); ok {
			w.note(fmt.Sprintf("unmodelled instruction %T", in))
			f.regs[v] = w.freshReg(st, v.Type(), "unk", OrigCall)
		}
	}
	return true
}

func (ex *Exec) mapLookup(f *Frame, st *State, x *ssa.Lookup) Val {
	// maps are abstract: uninterpreted in (map identity, key)
	w := ex.w
	m := ex.val(f, st, x.X)
	k := ex.val(f, st, x.Index)
	mt, ok := under(x.X.Type()).(*types.Map)
	if !ok {
		return w.freshReg(st, x.Type(), "lookup", OrigMem)
	}
	vt := mt.Elem()
	mu, ku := w.fold(st, m), w.fold(st, k)
	// registries (package-level maps filled in init) are never updated later
	// (listed assumption): epoch 0. Every other map is read at the current epoch.
	ep := bvLit(uint64(st.mapEpoch), 64)
	if ld, ok := x.X.(*ssa.UnOp); ok {
		if g, ok := ld.X.(*ssa.Global); ok && g.Pkg != nil {
			if r := ex.prog.CS.Registries[ex.prog.pkgName(g.Pkg.Pkg)+"."+g.Name()]; r != nil {
				ep = bvLit(0, 64)
			}
		}
	}
	var v Val
	if wd, ok := scalarWidth(vt); ok {
		fn := w.st.declare(fmt.Sprintf("map_get%d", wd), []string{sortU, bvSort(64), sortU}, bvSort(wd))
		v = VInt{T: app(fn, mu, ep, ku), W: wd}
	} else if _, isBool := under(vt).(*types.Basic); isBool && under(vt).(*types.Basic).Kind() == types.Bool {
		fn := w.st.declare("map_getb", []string{sortU, bvSort(64), sortU}, sortBool)
		v = VBool{T: app(fn, mu, ep, ku)}
	} else {
		v = w.freshReg(st, vt, "mapval", OrigMem)
	}
	if x.CommaOk {
		// registries: membership is the constant key set registered in init
		if ld, ok := x.X.(*ssa.UnOp); ok {
			if g, ok := ld.X.(*ssa.Global); ok && g.Pkg != nil {
				if r := ex.prog.CS.Registries[ex.prog.pkgName(g.Pkg.Pkg)+"."+g.Name()]; r != nil {
					if ki, ok := k.(VInt); ok {
						var alts []string
						for _, kk := range r.Keys {
							alts = append(alts, mkEq(ki.T, bvLitI(kk, ki.W)))
						}
						return VTuple{F: []Val{v, VBool{T: mkOr(alts...)}}}
					}
				}
			}
		}
		has := w.st.declare("map_has", []string{sortU, bvSort(64), sortU}, sortBool)
		return VTuple{F: []Val{v, VBool{T: app(has, mu, ep, ku)}}}
	}
	return v
}

func (ex *Exec) indexAddr(f *Frame, st *State, x *ssa.IndexAddr) bool {
	w := ex.w
	i := ex.idx64(f, st, x.Index)
	switch a := ex.val(f, st, x.X).(type) {
	case VSlice:
		goal := inRange(i, a.Len)
		if f.sweepOn("index") {
			ex.oblige(f, st, "index", ex.sweepName(f, x), goal, x.Pos(), "slice index in range")
		} else {
			st.assume(goal)
		}
		f.regs[x] = VPtr{Arr: a.A, Idx: bvAdd(a.Off, i), Nil: "false", Origin: OrigKnown}
	case VPtr:
		ex.derefCheck(f, st, a, x)
		at, ok := under(under(x.X.Type()).(*types.Pointer).Elem()).(*types.Array)
		if !ok {
			f.regs[x] = w.freshReg(st, x.Type(), "ia", OrigCall)
			return true
		}
		goal := inRange(i, bvLit(uint64(at.Len()), 64))
		if f.sweepOn("index") {
			ex.oblige(f, st, "index", ex.sweepName(f, x), goal, x.Pos(), "array index in range")
		} else {
			st.assume(goal)
		}
		ref, base := ex.arrayRef(st, a)
		if ref == nil {
			f.regs[x] = w.freshReg(st, x.Type(), "ia", OrigCall)
			return true
		}
		f.regs[x] = VPtr{Arr: ref, Idx: bvAdd(base, i), Nil: "false", Origin: OrigKnown}
	default:
		f.regs[x] = w.freshReg(st, x.Type(), "ia", OrigCall)
	}
	return true
}

// arrayRef resolves a pointer-to-array to its storage and base offset.
func (ex *Exec) arrayRef(st *State, p VPtr) (*ArrObj, string) {
	w := ex.w
	if p.Arr != nil {
		if len(p.Path) == 1 && p.Path[0].Field == -1 {
			return p.Arr, p.Idx // view of a backing array (slice-to-array pointer)
		}
		if len(p.Path) == 0 {
			// element of composite array that is itself an array
			if r, ok := w.elemVal(st, p.Arr, p.Idx).(VArrRef); ok {
				return r.A, bvLit(0, 64)
			}
			return nil, ""
		}
		v := w.navLoad(st, w.elemVal(st, p.Arr, p.Idx), p.Path)
		if r, ok := v.(VArrRef); ok {
			return r.A, bvLit(0, 64)
		}
		return nil, ""
	}
	if p.Root == nil {
		return nil, ""
	}
	v := w.navLoad(st, w.objVal(st, p.Root), p.Path)
	if r, ok := v.(VArrRef); ok {
		return r.A, bvLit(0, 64)
	}
	return nil, ""
}

func (ex *Exec) sliceOp(f *Frame, st *State, x *ssa.Slice) bool {
	w := ex.w
	get := func(v ssa.Value, def string) string {
		if v == nil {
			return def
		}
		return ex.idx64(f, st, v)
	}
	zero := bvLit(0, 64)
	check := func(goal string) {
		if f.sweepOn("slice") {
			ex.oblige(f, st, "slice", ex.sweepName(f, x), goal, x.Pos(), "slice bounds in range")
		} else {
			st.assume(goal)
		}
	}
	switch a := ex.val(f, st, x.X).(type) {
	case VSlice:
		lo := get(x.Low, zero)
		hi := get(x.High, a.Len)
		mx := get(x.Max, a.Cap)
		g := mkAnd(app("bvule", lo, hi), app("bvule", hi, mx), app("bvule", mx, a.Cap))
		if x.Max == nil {
			g = mkAnd(app("bvule", lo, hi), app("bvule", hi, a.Cap))
		}
		check(g)
		f.regs[x] = VSlice{A: a.A, Off: bvAdd(a.Off, lo), Len: bvSub(hi, lo), Cap: bvSub(mx, lo), Nil: mkAnd(a.Nil)}
	case VStr:
		lo := get(x.Low, zero)
		hi := get(x.High, a.Len)
		check(mkAnd(app("bvule", lo, hi), app("bvule", hi, a.Len)))
		f.regs[x] = VStr{C: a.C, Off: bvAdd(a.Off, lo), Len: bvSub(hi, lo)}
	case VPtr:
		ex.derefCheck(f, st, a, x)
		at, ok := under(under(x.X.Type()).(*types.Pointer).Elem()).(*types.Array)
		ref, base := ex.arrayRef(st, a)
		if !ok || ref == nil {
			f.regs[x] = w.freshReg(st, x.Type(), "slice", OrigCall)
			return true
		}
		n := bvLit(uint64(at.Len()), 64)
		lo := get(x.Low, zero)
		hi := get(x.High, n)
		mx := get(x.Max, n)
		check(mkAnd(app("bvule", lo, hi), app("bvule", hi, mx), app("bvule", mx, n)))
		f.regs[x] = VSlice{A: ref, Off: bvAdd(base, lo), Len: bvSub(hi, lo), Cap: bvSub(mx, lo), Nil: "false"}
	default:
		f.regs[x] = w.freshReg(st, x.Type(), "slice", OrigCall)
	}
	return true
}

func (ex *Exec) unop(f *Frame, st *State, x *ssa.UnOp) bool {
	w := ex.w
	switch x.Op {
	case token.MUL:
		p, ok := ex.val(f, st, x.X).(VPtr)
		if !ok {
			f.regs[x] = w.freshReg(st, x.Type(), "load", OrigMem)
			return true
		}
		ex.derefCheck(f, st, p, x)
		if p.Arr != nil && len(p.Path) == 1 && p.Path[0].Field == -1 {
			// array view of a backing array
			n, _ := litVal(p.Path[0].Idx)
			as := st.arrs[p.Arr]
			if as.C != nil {
				f.regs[x] = VArrVal{S: ArrState{C: shiftContent{base: as.C, off: p.Idx}}, N: int64(n), E: p.Arr.Elem}
				return true
			}
			f.regs[x] = w.freshReg(st, x.Type(), "view", OrigMem)
			return true
		}
		v := w.load(st, p)
		if v == nil {
			v = w.freshReg(st, x.Type(), "load", OrigMem)
		}
		f.regs[x] = v
	case token.NOT:
		b, _ := ex.val(f, st, x.X).(VBool)
		f.regs[x] = VBool{T: mkNot(b.T)}
	case token.SUB:
		if i, ok := ex.val(f, st, x.X).(VInt); ok {
			f.regs[x] = VInt{T: app("bvneg", i.T), W: i.W}
		} else {
			f.regs[x] = w.freshReg(st, x.Type(), "neg", OrigCall)
		}
	case token.XOR:
		if i, ok := ex.val(f, st, x.X).(VInt); ok {
			f.regs[x] = VInt{T: app("bvnot", i.T), W: i.W}
		} else {
			f.regs[x] = w.freshReg(st, x.Type(), "not", OrigCall)
		}
	case token.ARROW:
		w.note("channel receive (outside the subset)")
		rv := w.freshReg(st, x.Type(), "recv", OrigMem)
		if f.con != nil && f.con.RecvNonNil {
			if t, ok := rv.(VTuple); ok && len(t.F) == 2 {
				if iv, ok := t.F[0].(VIface); ok {
					if okb, ok := t.F[1].(VBool); ok {
						st.assume(mkImp(okb.T, mkNot(mkEq(iv.U, "nil_iface"))))
					}
				}
			} else if iv, ok := rv.(VIface); ok {
				st.assume(mkNot(mkEq(iv.U, "nil_iface")))
			}
		}
		f.regs[x] = rv
	default:
		f.regs[x] = w.freshReg(st, x.Type(), "unop", OrigCall)
	}
	return true
}

type shiftContent struct {
	base Content
	off  string
}

func (c shiftContent) Sel(i string) string { return c.base.Sel(bvAdd(c.off, i)) }
func (c shiftContent) ID() string          { return app("c_copy", "u_nil", bvLit(0, 64), c.base.ID(), c.off, bvLit(0, 64)) }
func (c shiftContent) Width() int          { return c.base.Width() }

func (ex *Exec) binop(f *Frame, st *State, x *ssa.BinOp) Val {
	w := ex.w
	a, b := ex.tv(f, st, x.X), ex.tv(f, st, x.Y)
	ec := &ExprCtx{w: w, cs: ex.prog.CS, st: st}
	_, aInt := a.V.(VInt)
	_, bInt := b.V.(VInt)
	switch x.Op {
	case token.EQL, token.NEQ:
		var eq string
		av, aok := a.V.(VArrVal)
		bv, bok := b.V.(VArrVal)
		if aok && bok && av.S.C != nil && bv.S.C != nil && av.N <= 64 {
			var cs []string
			for k := int64(0); k < av.N; k++ {
				ix := bvLit(uint64(k), 64)
				cs = append(cs, mkEq(av.S.C.Sel(ix), bv.S.C.Sel(ix)))
			}
			eq = mkAnd(cs...)
		} else {
			eq = ex.safeEqual(ec, a, b)
		}
		if x.Op == token.NEQ {
			eq = mkNot(eq)
		}
		return VBool{T: eq}
	}
	if aInt && bInt {
		if x.Op == token.QUO || x.Op == token.REM {
			bi := b.V.(VInt)
			nz := mkNot(mkEq(bi.T, bvLit(0, bi.W)))
			if f.sweepOn("div") {
				ex.oblige(f, st, "div", ex.sweepName(f, x), nz, x.Pos(), "divisor is not zero")
			} else {
				st.assume(nz)
			}
		}
		if f.sweep["nooverflow"] {
			ex.overflowCheck(f, st, x, a, b)
		}
		var res TV
		func() {
			defer func() {
				if r := recover(); r != nil {
					if _, ok := r.(exprErr); !ok {
						panic(r)
					}
					res = TV{V: w.freshReg(st, x.Type(), "binop", OrigCall)}
				}
			}()
			res = ec.binop(x.Op, a, b)
		}()
		return res.V
	}
	as, aStr := a.V.(VStr)
	bs, bStr := b.V.(VStr)
	if aStr && bStr && x.Op == token.ADD {
		l := bvAdd(as.Len, bs.Len)
		base := w.freshBase(8, "cat")
		id1 := w.st.fresh("cid_cat", sortU)
		c1 := copyContent{dst: base, dstOff: bvLit(0, 64), src: as.C, srcOff: as.Off, n: as.Len, id: id1}
		id2 := app("c_copy", as.C.ID(), as.Len, bs.C.ID(), bs.Off, bs.Len)
		c2 := copyContent{dst: c1, dstOff: as.Len, src: bs.C, srcOff: bs.Off, n: bs.Len, id: id2}
		st.assume(lenInv(l, l))
		return VStr{C: c2, Off: bvLit(0, 64), Len: l}
	}
	if ab, ok := a.V.(VBool); ok {
		if bb, ok := b.V.(VBool); ok {
			switch x.Op {
			case token.AND, token.LAND:
				return VBool{T: mkAnd(ab.T, bb.T)}
			case token.OR, token.LOR:
				return VBool{T: mkOr(ab.T, bb.T)}
			}
		}
	}
	return w.freshReg(st, x.Type(), "binop", OrigCall)
}

func (ex *Exec) safeEqual(ec *ExprCtx, a, b TV) (eq string) {
	defer func() {
		if r := recover(); r != nil {
			if _, ok := r.(exprErr); !ok {
				panic(r)
			}
			eq = ex.w.st.fresh("eq", sortBool)
		}
	}()
	if c, ok := isConstNil(a); ok && c {
		a = TV{T: types.Typ[types.UntypedNil]}
	}
	if c, ok := isConstNil(b); ok && c {
		b = TV{T: types.Typ[types.UntypedNil]}
	}
	return ec.equal(a, b)
}

// isConstNil: a zero value of pointer/slice/interface type produced from a nil constant.
func isConstNil(tv TV) (bool, bool) {
	switch v := tv.V.(type) {
	case VPtr:
		return v.Nil == "true", true
	case VIface:
		return v.U == "nil_iface", true
	case VSlice:
		return v.Nil == "true", true
	}
	return false, false
}

func (ex *Exec) overflowCheck(f *Frame, st *State, x *ssa.BinOp, a, b TV) {
	ai, bi := a.V.(VInt), b.V.(VInt)
	if ai.W != bi.W {
		return
	}
	wd := ai.W
	signed := isSigned(x.Type())
	ext := func(t string, by int) string {
		if signed {
			return fmt.Sprintf("((_ sign_extend %d) %s)", by, t)
		}
		return fmt.Sprintf("((_ zero_extend %d) %s)", by, t)
	}
	var wide, op string
	var by int
	switch x.Op {
	case token.ADD:
		op, by = "bvadd", 1
	case token.SUB:
		op, by = "bvsub", 1
	case token.MUL:
		op, by = "bvmul", wd
	default:
		return
	}
	wide = app(op, ext(ai.T, by), ext(bi.T, by))
	narrow := app(op, ai.T, bi.T)
	var goal string
	if x.Op == token.SUB && !signed {
		goal = app("bvuge", ai.T, bi.T)
	} else {
		goal = mkEq(wide, ext(narrow, by))
	}
	ex.oblige(f, st, "overflow", ex.sweepName(f, x), goal, x.Pos(), "arithmetic does not wrap")
}

func (ex *Exec) convert(f *Frame, st *State, x *ssa.Convert) Val {
	w := ex.w
	v := ex.val(f, st, x.X)
	from, to := x.X.Type(), x.Type()
	if iv, ok := v.(VInt); ok {
		if wd, ok := scalarWidth(to); ok {
			if f.sweep["nooverflow"] && wd <= iv.W {
				// value preserved by the conversion
				back := convInt(convInt(iv.T, iv.W, wd, isSigned(from)), wd, iv.W, isSigned(to))
				goal := mkEq(back, iv.T)
				if wd == iv.W && isSigned(from) != isSigned(to) {
					goal = app("bvsge", iv.T, bvLit(0, wd))
				}
				if wd < iv.W || isSigned(from) != isSigned(to) {
					ex.oblige(f, st, "overflow", ex.sweepName(f, x), goal, x.Pos(), "integer conversion preserves the value")
				}
			}
			return VInt{T: convInt(iv.T, iv.W, wd, isSigned(from)), W: wd}
		}
		return w.freshReg(st, to, "conv", OrigCall)
	}
	switch s := v.(type) {
	case VStr:
		if sl, ok := under(to).(*types.Slice); ok {
			if wd, _ := scalarWidth(sl.Elem()); wd == 8 {
				a := w.newArr(sl.Elem(), "str2b")
				st.arrs[a] = ArrState{C: s.C}
				return VSlice{A: a, Off: s.Off, Len: s.Len, Cap: bvAdd(s.Off, s.Len), Nil: "false"}
			}
		}
		if isStringType(to) {
			return s
		}
	case VSlice:
		if isStringType(to) {
			as := st.arrs[s.A]
			if as.C != nil && as.C.Width() == 8 {
				return VStr{C: as.C, Off: s.Off, Len: s.Len}
			}
		}
		if _, ok := under(to).(*types.Slice); ok {
			return s
		}
	case VPtr, VOpaque:
		if _, ok := under(to).(*types.Pointer); ok {
			return v
		}
	}
	return w.freshReg(st, to, "conv", OrigCall)
}

func isStringType(t types.Type) bool {
	b, ok := under(t).(*types.Basic)
	return ok && b.Info()&types.IsString != 0
}

func (ex *Exec) typeAssert(f *Frame, st *State, x *ssa.TypeAssert) bool {
	w := ex.w
	iv, _ := ex.val(f, st, x.X).(VIface)
	var val Val
	okT := ""
	if iv.Concrete != nil && hasTypeParam(iv.Concrete, 0) {
		iv.Concrete, iv.Val = nil, nil
	}
	if iv.Concrete != nil && !types.IsInterface(x.AssertedType) {
		if types.Identical(iv.Concrete, x.AssertedType) {
			val, okT = iv.Val, "true"
		} else {
			okT = "false"
		}
	} else if iv.U == "nil_iface" {
		okT = "false"
	}
	if okT == "" {
		// unknown dynamic type: result depends on (identity, asserted type)
		ts := types.TypeString(x.AssertedType, func(p *types.Package) string { return p.Name() })
		u := iv.U
		if u == "" {
			u = w.st.fresh("iface", sortU)
		}
		if types.IsInterface(x.AssertedType) {
			fn := w.st.declare("ta_"+sanitize(ts), []string{sortU}, sortBool)
			okT = app(fn, u)
		} else {
			// a concrete type: the assertion succeeds iff it is the dynamic type
			// (the same symbols as dyntype(x, "T") in contract expressions)
			okT = mkEq(app(w.st.declare("dyn_type", []string{sortU}, sortU), u), w.typeConst(st, ts))
		}
		st.assume(mkImp(okT, mkNot(mkEq(u, "nil_iface"))))
	}
	if val == nil {
		if types.IsInterface(x.AssertedType) {
			val = VIface{U: iv.U, Concrete: iv.Concrete, Val: iv.Val}
		} else {
			val = w.freshReg(st, x.AssertedType, "ta", OrigCall)
			if pv, ok := val.(VPtr); ok && iv.U != "" {
				// the pointer inside the interface: same identity as the interface value
				pv.U, pv.IDU = iv.U, true
				val = pv
			}
		}
	}
	if x.CommaOk {
		f.regs[x] = VTuple{F: []Val{val, VBool{T: okT}}}
		return true
	}
	if f.sweepOn("typeassert") {
		ex.oblige(f, st, "typeassert", ex.sweepName(f, x), okT, x.Pos(), "type assertion cannot fail")
	} else {
		st.assume(okT)
	}
	f.regs[x] = val
	return true
}

// initGlobal: package-level variables of interface type that the package
// initialiser sets from a constructor call (errors.New, fmt.Errorf, a
// composite value) are non-nil and have a stable identity. Assumption (listed):
// nobody reassigns them.
func (ex *Exec) initGlobal(st *State, g *ssa.Global, o *Obj) {
	if g.Pkg == nil {
		return
	}
	if _, ok := under(o.Typ).(*types.Interface); !ok {
		return
	}
	init := g.Pkg.Func("init")
	if init == nil {
		return
	}
	for _, b := range init.Blocks {
		for _, in := range b.Instrs {
			s, ok := in.(*ssa.Store)
			if !ok || s.Addr != ssa.Value(g) {
				continue
			}
			switch s.Val.(type) {
			case *ssa.Call, *ssa.MakeInterface:
				name := "glob_" + sanitize(g.Pkg.Pkg.Name()+"_"+g.Name())
				u := ex.w.st.declare(name, nil, sortU)
				st.assume(mkNot(mkEq(u, "nil_iface")))
				// a sentinel is not an error value created later by fmt.Errorf / errors.New
				fe := ex.w.st.declare("sf_FreshErr", []string{sortU}, sortBool)
				st.assume(mkNot(app(fe, u)))
				// distinct sentinels are distinct values
				gid := ex.w.st.declare("glob_id", []string{sortU}, bvSort(64))
				h := fnv.New64a()
				h.Write([]byte(name))
				st.assume(mkEq(app(gid, u), bvLit(h.Sum64(), 64)))
				st.mem[o] = VIface{U: u}
				return
			}
		}
	}
}

// autoInv is an automatically proposed loop invariant for a counter phi. It is
// an obligation like any written invariant (asserted on entry and on the back
// edge), so proposing it is sound.
type autoInv struct {
	name, desc string
	phi        *ssa.Phi
	lower      *ssa.Const // phi >= lower
	upper      ssa.Value  // phi < upper
}

func (a autoInv) term(f *Frame, st *State, ex *Exec) string {
	p, ok := f.regs[a.phi].(VInt)
	if !ok {
		return ""
	}
	signed := isSigned(a.phi.Type())
	if a.lower != nil {
		c, ok := ex.constVal(st, a.lower).(VInt)
		if !ok {
			return ""
		}
		if signed {
			return app("bvsge", p.T, c.T)
		}
		return app("bvuge", p.T, c.T)
	}
	u, ok := ex.val(f, st, a.upper).(VInt)
	if !ok || u.W != p.W {
		return ""
	}
	if signed {
		return app("bvslt", p.T, u.T)
	}
	return app("bvult", p.T, u.T)
}

func (ex *Exec) autoInvariants(f *Frame, b *ssa.BasicBlock, ld *loopDesc, phis []*ssa.Phi) []autoInv {
	var out []autoInv
	for pi, phi := range phis {
		if _, ok := scalarWidth(phi.Type()); !ok || len(phi.Edges) < 2 {
			continue
		}
		var init *ssa.Const
		var step *ssa.BinOp
		bad := false
		for ei, e := range phi.Edges {
			pred := b.Preds[ei]
			if ld.blocks[pred] {
				bo, ok := e.(*ssa.BinOp)
				if !ok || bo.Op != token.ADD || bo.X != ssa.Value(phi) || (step != nil && step != bo) {
					bad = true
					break
				}
				c, ok := bo.Y.(*ssa.Const)
				if !ok || c.Value == nil || constant.Sign(c.Value) <= 0 {
					bad = true
					break
				}
				step = bo
			} else if c, ok := e.(*ssa.Const); ok && c.Value != nil && (init == nil || init == c) {
				init = c
			} else {
				bad = true
				break
			}
		}
		if bad || init == nil || step == nil {
			continue
		}
		out = append(out, autoInv{name: fmt.Sprintf("phi%d-lower", pi), desc: "counter never below its initial value", phi: phi, lower: init})
		// upper bound from the comparison guarding the back edge: step < N
		if refs := step.Referrers(); refs != nil {
			for _, r := range *refs {
				cmp, ok := r.(*ssa.BinOp)
				if !ok || cmp.Op != token.LSS || cmp.X != ssa.Value(step) || !ld.blocks[cmp.Block()] {
					continue
				}
				n := cmp.Y
				// N must be defined outside the loop
				if in, ok := n.(ssa.Instruction); ok && ld.blocks[in.Block()] {
					continue
				}
				// the comparison must decide an If in its block
				if iff, ok := cmp.Block().Instrs[len(cmp.Block().Instrs)-1].(*ssa.If); ok && iff.Cond == ssa.Value(cmp) {
					out = append(out, autoInv{name: fmt.Sprintf("phi%d-upper", pi), desc: "counter below the loop bound", phi: phi, upper: n})
				}
			}
		}
	}
	return out
}

func hasTypeParam(t types.Type, depth int) bool {
	if depth > 6 {
		return false
	}
	switch x := types.Unalias(t).(type) {
	case *types.TypeParam:
		return true
	case *types.Pointer:
		return hasTypeParam(x.Elem(), depth+1)
	case *types.Slice:
		return hasTypeParam(x.Elem(), depth+1)
	case *types.Array:
		return hasTypeParam(x.Elem(), depth+1)
	case *types.Map:
		return hasTypeParam(x.Key(), depth+1) || hasTypeParam(x.Elem(), depth+1)
	case *types.Named:
		if ta := x.TypeArgs(); ta != nil {
			for i := 0; i < ta.Len(); i++ {
				if hasTypeParam(ta.At(i), depth+1) {
					return true
				}
			}
		}
	}
	return false
}

type loadAlt struct {
	cond string
	val  Val
}

func (ex *Exec) loadAlternatives(f *Frame, st *State, x *ssa.UnOp) []loadAlt {
	if x.Op != token.MUL {
		return nil
	}
	p, ok := f.regs[x.X].(VPtr)
	if !ok || p.Arr == nil || len(p.Path) != 0 {
		return nil
	}
	if _, scalar := scalarWidth(p.Arr.Elem); scalar {
		return nil
	}
	if _, lit := litVal(p.Idx); lit {
		return nil
	}
	as := st.arrs[p.Arr]
	// literal elements 0..n-1, all present, n small
	n := 0
	for k := range as.Elems {
		if _, lit := litVal(k); lit {
			n++
		}
	}
	if n < 2 || n > 8 {
		return nil
	}
	var alts []loadAlt
	for k := 0; k < n; k++ {
		e, ok := as.Elems[bvLit(uint64(k), 64)]
		if !ok || e == nil {
			return nil
		}
		alts = append(alts, loadAlt{cond: mkEq(p.Idx, bvLit(uint64(k), 64)), val: ex.w.snapshot(st, e)})
	}
	return alts
}

// checkFrame: with an explicit modifies clause (or pure), every write of the body
// to memory that existed at entry must be covered by the clause. Writes by
// callees without a contract are not tracked (ASSUMPTION, listed).
func (ex *Exec) checkFrame(f *Frame, st *State, ret *ssa.Return) {
	type perm struct {
		obj  *Obj
		path []PathElem
		arr  *ArrObj
	}
	var perms []perm
	if !f.con.Pure {
		ec := ex.ectx(f, ex.entry)
		for _, m := range f.con.Modifies {
			func() {
				defer func() {
					if r := recover(); r != nil {
						if _, ok := r.(exprErr); !ok {
							panic(r)
						}
					}
				}()
				isReach := false
				if strings.HasPrefix(m, "reach(") && strings.HasSuffix(m, ")") {
					m, isReach = m[len("reach("):len(m)-1], true
				}
				e, err := parser.ParseExpr(strings.TrimSpace(m))
				if err == nil && !isReach {
					if sel, ok := e.(*ast.SelectorExpr); ok {
						base := ec.eval(sel.X)
						if p, ok := base.V.(VPtr); ok && base.T != nil {
							if pt, ok := under(base.T).(*types.Pointer); ok {
								if idx, _ := findField(pt.Elem(), sel.Sel.Name); len(idx) >= 1 {
									pp := append([]PathElem(nil), p.Path...)
									for _, k := range idx {
										pp = append(pp, PathElem{Field: k})
									}
									perms = append(perms, perm{obj: p.Root, path: pp})
									return
								}
							}
						}
					}
				}
				tv := ec.evalSrc(m)
				switch v := tv.V.(type) {
				case VPtr:
					perms = append(perms, perm{obj: v.Root, path: v.Path, arr: v.Arr})
				case VSlice:
					perms = append(perms, perm{arr: v.A})
				case VIface:
					if p, ok := v.Val.(VPtr); ok {
						perms = append(perms, perm{obj: p.Root, path: p.Path})
					}
				}
			}()
		}
	}
	allowed := func(wr writeRec) bool {
		for _, p := range perms {
			if wr.arr != nil && p.arr == wr.arr {
				return true
			}
			if wr.obj != nil && p.obj == wr.obj && len(p.path) <= len(wr.path) {
				ok := true
				for i := range p.path {
					if p.path[i] != wr.path[i] {
						ok = false
					}
				}
				if ok {
					return true
				}
			}
		}
		return false
	}
	bad := ""
	for _, wr := range st.writes {
		if wr.arr != nil && wr.arr.Fresh {
			continue
		}
		if wr.arr == nil && (wr.obj == nil || wr.obj.Local) {
			continue
		}
		if !allowed(wr) {
			name := ""
			if wr.obj != nil {
				name = wr.obj.Name
			} else {
				name = wr.arr.Sym
			}
			bad = fmt.Sprintf("%s of memory that existed at entry (%s), not covered by the modifies clause", wr.what, name)
			break
		}
	}
	p, src := ex.posOf(ret.Pos())
	o := &Obligation{Name: ex.name + "#frame", Class: "frame", Fn: ex.name, Pos: p, Src: src, Goal: "true",
		Desc: "the body writes only what the modifies clause names", Trace: append([]string(nil), st.trace...)}
	if bad == "" {
		o.Res = SolveResult{Status: "unsat", Backend: "syntactic"}
	} else {
		o.Goal, o.Desc = "false", bad
		o.Res = SolveResult{Status: "sat", Backend: "syntactic", Output: bad}
	}
	ex.obls = append(ex.obls, o)
}
