package main

// Loading /repo (and its sub-modules) into go/ssa, naming functions, and
// static per-function analyses (loops, allocation escape).

import (
	"fmt"
	"go/constant"
	"go/types"
	"os"
	"path/filepath"
	"sort"
	"strings"

	"golang.org/x/tools/go/packages"
	"golang.org/x/tools/go/ssa"
	"golang.org/x/tools/go/ssa/ssautil"
)

type Prog struct {
	Root    string // module directory
	ModPath string
	SSA     *ssa.Program
	Pkgs    []*packages.Package
	Funcs   map[string]*ssa.Function // canonical name -> function
	CS      *ContractSet
	loops   map[*ssa.Function]*loopInfo
	descs   map[*ssa.Function]map[ssa.Value]string
	Errors  []string
}

// canonical names: module packages are named by their path relative to the
// module root ("fdo" for the root package); everything else by import path.
func (p *Prog) pkgName(pk *types.Package) string {
	if pk == nil {
		return ""
	}
	path := pk.Path()
	if path == p.ModPath {
		return pk.Name()
	}
	if strings.HasPrefix(path, p.ModPath+"/") {
		return strings.TrimPrefix(path, p.ModPath+"/")
	}
	// sibling modules of go-fdo (fsim, sqlite, tpm) when loaded as dependency
	const base = "github.com/fido-device-onboard/go-fdo"
	if path == base {
		return "fdo"
	}
	if strings.HasPrefix(path, base+"/") {
		return strings.TrimPrefix(path, base+"/")
	}
	return path
}

func (p *Prog) funcName(fn *ssa.Function) string {
	if o := fn.Origin(); o != nil {
		fn = o
	}
	if fn.Parent() != nil {
		// anonymous function: parent name + $n
		return p.funcName(fn.Parent()) + "$" + strings.TrimPrefix(fn.Name()[strings.LastIndex(fn.Name(), "$"):], "$")
	}
	if obj, ok := fn.Object().(*types.Func); ok {
		if obj.Name() == "init" && obj.Type().(*types.Signature).Recv() == nil && p.SSA != nil {
			// several init functions per package: name them by their file
			return p.pkgName(obj.Pkg()) + ".init@" + filepath.Base(p.SSA.Fset.Position(obj.Pos()).Filename)
		}
		return p.objName(obj)
	}
	if fn.Pkg != nil {
		return p.pkgName(fn.Pkg.Pkg) + "." + fn.Name()
	}
	return fn.String()
}

func (p *Prog) objName(obj *types.Func) string {
	sig := obj.Type().(*types.Signature)
	pkg := p.pkgName(obj.Pkg())
	if recv := sig.Recv(); recv != nil {
		t := types.Unalias(recv.Type())
		if pt, ok := t.(*types.Pointer); ok {
			t = types.Unalias(pt.Elem())
		}
		switch n := t.(type) {
		case *types.Named:
			return p.pkgName(n.Obj().Pkg()) + "." + n.Obj().Name() + "." + obj.Name()
		case *types.Interface:
			return pkg + ".interface." + obj.Name()
		}
		return pkg + ".?." + obj.Name()
	}
	return pkg + "." + obj.Name()
}

func loadProg(dir string, cs *ContractSet) (*Prog, error) {
	cfg := &packages.Config{
		Mode:       packages.LoadAllSyntax | packages.NeedModule,
		Dir:        dir,
		BuildFlags: []string{"-tags=verif"},
		Env:        append(os.Environ(), "GOFLAGS=-mod=mod", "GOPROXY=off", "GOSUMDB=off", "GOTOOLCHAIN=local"),
	}
	pkgs, err := packages.Load(cfg, "./...")
	if err != nil {
		return nil, err
	}
	p := &Prog{Root: dir, Pkgs: pkgs, Funcs: map[string]*ssa.Function{}, CS: cs, loops: map[*ssa.Function]*loopInfo{}}
	for _, pk := range pkgs {
		for _, e := range pk.Errors {
			p.Errors = append(p.Errors, e.Error())
		}
		if pk.Module != nil && pk.Module.Main {
			p.ModPath = pk.Module.Path
		}
	}
	if len(p.Errors) > 0 {
		return p, fmt.Errorf("package errors: %s", strings.Join(p.Errors, "; "))
	}
	prog, _ := ssautil.AllPackages(pkgs, ssa.GlobalDebug)
	prog.Build()
	p.SSA = prog
	for fn := range ssautil.AllFunctions(prog) {
		if fn.Synthetic != "" && fn.Origin() == nil {
			continue
		}
		if fn.Origin() != nil {
			continue // instances are named by their origin
		}
		name := p.funcName(fn)
		if _, dup := p.Funcs[name]; !dup {
			p.Funcs[name] = fn
		}
	}
	// methods of generic types that are never instantiated inside the module (e.g.
	// fsim.DownloadContents[T]) are not reachable from AllFunctions: add the
	// generic origins from the type information
	for _, pk := range pkgs {
		if pk.Module == nil || !pk.Module.Main || pk.Types == nil {
			continue
		}
		sc := pk.Types.Scope()
		for _, nm := range sc.Names() {
			tn, ok := sc.Lookup(nm).(*types.TypeName)
			if !ok {
				continue
			}
			named, ok := types.Unalias(tn.Type()).(*types.Named)
			if !ok {
				continue
			}
			for i := 0; i < named.NumMethods(); i++ {
				fn := prog.FuncValue(named.Method(i).Origin())
				if fn == nil || len(fn.Blocks) == 0 {
					continue
				}
				name := p.funcName(fn)
				if _, dup := p.Funcs[name]; !dup {
					p.Funcs[name] = fn
				}
			}
		}
	}
	// contract files next to the code
	seen := map[string]bool{}
	for _, pk := range pkgs {
		if pk.Module == nil || !pk.Module.Main {
			continue
		}
		for _, f := range pk.GoFiles {
			if isContractFile(f) && !seen[f] {
				seen[f] = true
				if os.Getenv("VERIF_PREFER_MIRROR") != "" {
					// development: /verif/contracts wins when it has this file
					if rel, err := filepath.Rel(repoRoot(), f); err == nil {
						if _, err := os.Stat(filepath.Join(verifRoot(), "contracts", rel)); err == nil {
							continue
						}
					}
				}
				if err := cs.loadFile(f); err != nil {
					return p, err
				}
			}
		}
	}
	return p, nil
}

// checkRegistries compares every declared registry with the constant Register*
// calls found in the package initialisers of the current source tree.
func (p *Prog) checkRegistries() []string {
	var errs []string
	for _, name := range sortedKeys(p.CS.Registries) {
		r := p.CS.Registries[name]
		if moduleOfGlobal(name) != filepath.Base(p.Root) && !(moduleOfGlobal(name) == "" && p.ModPath == "github.com/fido-device-onboard/go-fdo") {
			continue
		}
		got := map[int64]bool{}
		for fn := range ssautil.AllFunctions(p.SSA) {
			if !strings.HasPrefix(fn.Name(), "init") || fn.Pkg == nil {
				continue
			}
			for _, b := range fn.Blocks {
				for _, in := range b.Instrs {
					c, ok := in.(*ssa.Call)
					if !ok {
						continue
					}
					sc := c.Common().StaticCallee()
					if sc == nil || p.funcName(sc) != r.Via || len(c.Common().Args) == 0 {
						continue
					}
					if k, ok := c.Common().Args[0].(*ssa.Const); ok && k.Value != nil {
						if v, ok := constant.Int64Val(constant.ToInt(k.Value)); ok {
							got[v] = true
						}
					}
				}
			}
		}
		want := map[int64]bool{}
		for _, k := range r.Keys {
			want[k] = true
		}
		if len(got) != len(want) {
			errs = append(errs, fmt.Sprintf("%s: registry %s: the source registers %v, the contract lists %v", r.Line, name, keysOf(got), keysOf(want)))
			continue
		}
		for k := range want {
			if !got[k] {
				errs = append(errs, fmt.Sprintf("%s: registry %s: the source registers %v, the contract lists %v", r.Line, name, keysOf(got), keysOf(want)))
				break
			}
		}
	}
	return errs
}

// checkRegistryValues: the constants the contracts assume about registry
// entries (key sizes, algorithms of a cipher suite) are those the source registers.
func (p *Prog) checkRegistryValues() []string {
	var errs []string
	for _, rv := range p.CS.RegValues {
		r := p.CS.Registries[rv.Global]
		if r == nil {
			errs = append(errs, fmt.Sprintf("%s: registry-values for undeclared registry %s", rv.Line, rv.Global))
			continue
		}
		if moduleOfGlobal(rv.Global) != filepath.Base(p.Root) && !(moduleOfGlobal(rv.Global) == "" && p.ModPath == "github.com/fido-device-onboard/go-fdo") {
			continue
		}
		argSpec, field, _ := strings.Cut(rv.Arg, ".")
		var argN int
		fmt.Sscanf(argSpec, "arg%d", &argN)
		got := map[int64]int64{}
		for fn := range ssautil.AllFunctions(p.SSA) {
			if !strings.HasPrefix(fn.Name(), "init") || fn.Pkg == nil {
				continue
			}
			for _, b := range fn.Blocks {
				for _, in := range b.Instrs {
					c, ok := in.(*ssa.Call)
					if !ok {
						continue
					}
					sc := c.Common().StaticCallee()
					if sc == nil || p.funcName(sc) != r.Via || len(c.Common().Args) <= argN {
						continue
					}
					k, ok := c.Common().Args[0].(*ssa.Const)
					if !ok || k.Value == nil {
						continue
					}
					key, _ := constant.Int64Val(constant.ToInt(k.Value))
					if v, ok := constArg(c.Common().Args[argN], field); ok {
						got[key] = v
					}
				}
			}
		}
		for _, k := range keysOf64(rv.Vals) {
			if g, ok := got[k]; !ok || g != rv.Vals[k] {
				errs = append(errs, fmt.Sprintf("%s: registry %s %s: key %d: the contracts assume %d, the source registers %v (found=%v)", rv.Line, rv.Global, rv.Arg, k, rv.Vals[k], g, ok))
			}
		}
		if len(got) != len(rv.Vals) {
			errs = append(errs, fmt.Sprintf("%s: registry %s %s: %d entries in the source, %d in the contract", rv.Line, rv.Global, rv.Arg, len(got), len(rv.Vals)))
		}
	}
	return errs
}

func keysOf64(m map[int64]int64) []int64 {
	var ks []int64
	for k := range m {
		ks = append(ks, k)
	}
	sort.Slice(ks, func(i, j int) bool { return ks[i] < ks[j] })
	return ks
}

// constArg: the constant value of a call argument: an integer/bool constant, or
// (field != "") the constant stored into that field of a struct literal.
func constArg(v ssa.Value, field string) (int64, bool) {
	if field == "" {
		c, ok := v.(*ssa.Const)
		if !ok || c.Value == nil {
			return 0, false
		}
		if c.Value.Kind() == constant.Bool {
			if constant.BoolVal(c.Value) {
				return 1, true
			}
			return 0, true
		}
		return constant.Int64Val(constant.ToInt(c.Value))
	}
	if field == "bound" {
		// a bound method value such as crypto.SHA256.HashFunc: the receiver constant
		if mc, ok := v.(*ssa.MakeClosure); ok && len(mc.Bindings) == 1 {
			if c, ok := mc.Bindings[0].(*ssa.Const); ok && c.Value != nil {
				return constant.Int64Val(constant.ToInt(c.Value))
			}
		}
		return 0, false
	}
	// struct literal: t = local T; &t.f = const ...; arg = *t
	ld, ok := v.(*ssa.UnOp)
	if !ok {
		return 0, false
	}
	alloc, ok := ld.X.(*ssa.Alloc)
	if !ok {
		return 0, false
	}
	st, ok := under(under(alloc.Type()).(*types.Pointer).Elem()).(*types.Struct)
	if !ok {
		return 0, false
	}
	idx := -1
	for i := 0; i < st.NumFields(); i++ {
		if st.Field(i).Name() == field {
			idx = i
		}
	}
	if idx < 0 {
		return 0, false
	}
	val, found := int64(0), false // a field not mentioned in the literal is zero
	for _, ref := range *alloc.Referrers() {
		fa, ok := ref.(*ssa.FieldAddr)
		if !ok || fa.Field != idx {
			continue
		}
		for _, r2 := range *fa.Referrers() {
			if sto, ok := r2.(*ssa.Store); ok {
				if c, ok := sto.Val.(*ssa.Const); ok && c.Value != nil {
					val, _ = constant.Int64Val(constant.ToInt(c.Value))
					found = true
				} else {
					return 0, false
				}
			}
		}
	}
	_ = found
	return val, true
}

func moduleOfGlobal(name string) string {
	switch {
	case strings.HasPrefix(name, "fsim."):
		return "fsim"
	case strings.HasPrefix(name, "sqlite."):
		return "sqlite"
	}
	return ""
}

func keysOf(m map[int64]bool) []int64 {
	var ks []int64
	for k := range m {
		ks = append(ks, k)
	}
	sort.Slice(ks, func(i, j int) bool { return ks[i] < ks[j] })
	return ks
}

// ---------------------------------------------------------------------------

type loopInfo struct {
	headers map[*ssa.BasicBlock]*loopDesc
	ordinal map[ssa.Instruction]int // per-class ordinal of an instruction
	class   map[ssa.Instruction]string
	callOrd map[ssa.Instruction]int
	escapes map[*ssa.Alloc]bool
}

type loopDesc struct {
	header *ssa.BasicBlock
	ord    int
	blocks map[*ssa.BasicBlock]bool
	wild   bool                // calls / stores through non-local pointers
	arrs   bool                // stores into slice elements (backing arrays only)
	calls  bool                // non-pure calls, defers, sends: anything may change
	stTyps []types.Type        // types stored through non-local pointers
	stored map[*ssa.Alloc]bool // non-escaping allocs stored to in the loop
	modVals []ssa.Value        // values whose reachable memory is modified by calls with a precise frame
}

// valueDescs gives every SSA value of fn a structural descriptor that does not
// depend on source names: calls by callee and ordinal, everything else by
// instruction kind and ordinal in block order. Used to keep contract clauses
// that mention a local valid when the local is merely renamed in the source
// (the `local` lines of a contract record the descriptors of its names).
func (p *Prog) valueDescs(fn *ssa.Function) map[ssa.Value]string {
	if d, ok := p.descs[fn]; ok {
		return d
	}
	if p.descs == nil {
		p.descs = map[*ssa.Function]map[ssa.Value]string{}
	}
	d := map[ssa.Value]string{}
	p.descs[fn] = d
	li := p.loopInfo(fn)
	cnt := map[string]int{}
	for _, b := range fn.Blocks {
		for _, in := range b.Instrs {
			v, ok := in.(ssa.Value)
			if !ok {
				continue
			}
			switch x := in.(type) {
			case *ssa.Call:
				d[v] = fmt.Sprintf("call:%s#%d", p.calleeName(x.Common()), li.callOrd[x])
			case *ssa.Extract:
				if td, ok := d[x.Tuple]; ok {
					d[v] = fmt.Sprintf("extract%d:%s", x.Index, td)
				}
			}
			if _, done := d[v]; done {
				continue
			}
			k := fmt.Sprintf("%T", in)
			cnt[k]++
			d[v] = fmt.Sprintf("%s#%d", strings.TrimPrefix(k, "*ssa."), cnt[k])
		}
	}
	return d
}

// loopCallFrame: for a call in a loop whose callee has a contract with an
// explicit modifies clause made only of parameters ("p", "reach(recv)"), the
// SSA values bound to those parameters, provided they are defined outside the
// loop (so they can be evaluated at the loop head).
func (p *Prog) loopCallFrame(c *ssa.CallCommon, ld *loopDesc) ([]ssa.Value, bool) {
	con, ok := p.CS.ByName[p.calleeName(c)]
	if !ok || con.sweepOnly() || con.Pure || !con.HasMod || len(con.Modifies) == 0 || con.Inline {
		return nil, false
	}
	names := map[string]ssa.Value{}
	args := c.Args
	k := 0
	if c.IsInvoke() {
		names["recv"], names["arg0"] = c.Value, c.Value
		k = 1
	} else if sc := c.StaticCallee(); sc != nil && len(sc.Params) == len(args) {
		for i, prm := range sc.Params {
			names[prm.Name()] = args[i]
			names[fmt.Sprintf("arg%d", i)] = args[i]
			if i < len(con.ParamNames) {
				names[con.ParamNames[i]] = args[i]
			}
		}
		args = nil
	} else if c.Signature().Recv() != nil && len(args) > 0 {
		names["recv"], names["arg0"] = args[0], args[0]
		args = args[1:]
		k = 1
	}
	ps := c.Signature().Params()
	for j := 0; j < ps.Len() && j < len(args); j++ {
		if n := ps.At(j).Name(); n != "" && n != "_" {
			names[n] = args[j]
		}
		names[fmt.Sprintf("arg%d", k+j)] = args[j]
	}
	var out []ssa.Value
	for _, m := range con.Modifies {
		m = strings.TrimSpace(m)
		if strings.HasPrefix(m, "reach(") && strings.HasSuffix(m, ")") {
			m = strings.TrimSpace(m[len("reach(") : len(m)-1])
		}
		v, ok := names[m]
		if !ok {
			return nil, false
		}
		switch d := v.(type) {
		case *ssa.Parameter, *ssa.FreeVar, *ssa.Global, *ssa.Const:
		case ssa.Instruction:
			if d.Block() == nil || ld.blocks[d.Block()] {
				return nil, false
			}
		default:
			return nil, false
		}
		out = append(out, v)
	}
	return out, true
}

func (p *Prog) loopInfo(fn *ssa.Function) *loopInfo {
	if li, ok := p.loops[fn]; ok {
		return li
	}
	li := &loopInfo{headers: map[*ssa.BasicBlock]*loopDesc{}, ordinal: map[ssa.Instruction]int{}, class: map[ssa.Instruction]string{},
		callOrd: map[ssa.Instruction]int{}, escapes: map[*ssa.Alloc]bool{}}
	p.loops[fn] = li
	// escape analysis of allocations
	for _, b := range fn.Blocks {
		for _, in := range b.Instrs {
			if a, ok := in.(*ssa.Alloc); ok {
				li.escapes[a] = addrEscapes(a, 0)
			}
		}
	}
	// loops
	var hdrs []*ssa.BasicBlock
	for _, b := range fn.Blocks {
		for _, s := range b.Succs {
			if s.Dominates(b) {
				if _, ok := li.headers[s]; !ok {
					li.headers[s] = &loopDesc{header: s, blocks: map[*ssa.BasicBlock]bool{s: true}, stored: map[*ssa.Alloc]bool{}}
					hdrs = append(hdrs, s)
				}
				// natural loop of back edge b -> s
				ld := li.headers[s]
				stack := []*ssa.BasicBlock{b}
				for len(stack) > 0 {
					n := stack[len(stack)-1]
					stack = stack[:len(stack)-1]
					if ld.blocks[n] {
						continue
					}
					ld.blocks[n] = true
					stack = append(stack, n.Preds...)
				}
			}
		}
	}
	sort.Slice(hdrs, func(i, j int) bool { return hdrs[i].Index < hdrs[j].Index })
	for i, h := range hdrs {
		ld := li.headers[h]
		ld.ord = i + 1
		for b := range ld.blocks {
			for _, in := range b.Instrs {
				switch x := in.(type) {
				case *ssa.Store:
					if a := rootAlloc(x.Addr); a != nil && ld.blocks[a.Block()] {
						// allocated inside the loop: a new object in every iteration
					} else if a != nil && !li.escapes[a] {
						ld.stored[a] = true
					} else if ia, ok := x.Addr.(*ssa.IndexAddr); ok && isSliceOfScalars(ia.X.Type()) {
						ld.arrs = true
					} else {
						ld.wild = true
						ld.stTyps = append(ld.stTyps, x.Val.Type())
					}
				case *ssa.Call:
					if vals, ok := p.loopCallFrame(x.Common(), ld); ok {
						// the callee's frame is named by its contract and evaluable at the
						// loop head (values defined outside the loop): havoc exactly that
						ld.modVals = append(ld.modVals, vals...)
					} else if !p.callIsPure(x.Common()) {
						ld.wild = true
						ld.calls = true
						if os.Getenv("GOVC_DEBUG") != "" {
							fmt.Fprintf(os.Stderr, "loop in %s wild because of call %s\n", fn.Name(), p.calleeName(x.Common()))
						}
					}
				case *ssa.Defer, *ssa.Go, *ssa.MapUpdate, *ssa.Send, *ssa.Select:
					ld.wild = true
					ld.calls = true
				case *ssa.UnOp:
					// receive
				}
			}
		}
	}
	// ordinals
	cnt := map[string]int{}
	callCnt := map[string]int{}
	for _, b := range fn.Blocks {
		for _, in := range b.Instrs {
			cl := ""
			switch x := in.(type) {
			case *ssa.IndexAddr, *ssa.Index:
				cl = "index"
			case *ssa.Lookup:
				if _, ok := under(x.X.Type()).(*types.Basic); ok {
					cl = "index"
				}
			case *ssa.Slice, *ssa.SliceToArrayPointer:
				cl = "slice"
			case *ssa.MakeSlice:
				cl = "make"
			case *ssa.Panic:
				cl = "panic"
			case *ssa.TypeAssert:
				if !x.CommaOk {
					cl = "typeassert"
				}
			case *ssa.FieldAddr, *ssa.Store:
				cl = "nil"
			case *ssa.UnOp:
				if x.Op.String() == "*" {
					cl = "nil"
				}
			case *ssa.BinOp:
				switch x.Op.String() {
				case "/", "%":
					cl = "div"
				case "+", "-", "*":
					cl = "overflow"
				}
			case *ssa.Convert:
				cl = "overflow"
			}
			if cl != "" {
				cnt[cl]++
				li.ordinal[in] = cnt[cl]
				li.class[in] = cl
			}
			if ci, ok := in.(ssa.CallInstruction); ok {
				n := p.calleeName(ci.Common())
				callCnt[n]++
				li.callOrd[in] = callCnt[n]
			}
		}
	}
	return li
}

func rootAlloc(v ssa.Value) *ssa.Alloc {
	for {
		switch x := v.(type) {
		case *ssa.Alloc:
			return x
		case *ssa.FieldAddr:
			v = x.X
		case *ssa.IndexAddr:
			if _, ok := under(x.X.Type()).(*types.Pointer); ok {
				v = x.X
			} else {
				return nil
			}
		default:
			return nil
		}
	}
}

func addrEscapes(v ssa.Value, depth int) bool {
	if depth > 6 {
		return true
	}
	refs := v.Referrers()
	if refs == nil {
		return true
	}
	for _, r := range *refs {
		switch x := r.(type) {
		case *ssa.UnOp:
			if x.Op.String() != "*" {
				return true
			}
		case *ssa.Store:
			if x.Val == v {
				return true
			}
		case *ssa.DebugRef:
		case *ssa.FieldAddr:
			if addrEscapes(x, depth+1) {
				return true
			}
		case *ssa.IndexAddr:
			if addrEscapes(x, depth+1) {
				return true
			}
		default:
			return true
		}
	}
	return false
}

func (p *Prog) calleeName(c *ssa.CallCommon) string {
	if c.IsInvoke() {
		return p.objName(c.Method)
	}
	switch v := c.Value.(type) {
	case *ssa.Function:
		return p.funcName(v)
	case *ssa.MakeClosure:
		return p.funcName(v.Fn.(*ssa.Function))
	case *ssa.Builtin:
		return "builtin." + v.Name()
	case *ssa.Phi:
		// call through a local function variable: var.<name>
		if v.Comment != "" {
			return "var." + v.Comment
		}
	case *ssa.Parameter:
		return "param." + v.Name()
	case *ssa.UnOp:
		// call through a function-typed struct field: <pkg>.<Struct>.<Field>
		if fa, ok := v.X.(*ssa.FieldAddr); ok {
			if pt, ok := under(fa.X.Type()).(*types.Pointer); ok {
				if n, ok := types.Unalias(pt.Elem()).(*types.Named); ok {
					if st, ok := n.Underlying().(*types.Struct); ok {
						return p.pkgName(n.Obj().Pkg()) + "." + n.Obj().Name() + "." + st.Field(fa.Field).Name()
					}
				}
			}
		}
	}
	return "dynamic"
}

func (p *Prog) callIsPure(c *ssa.CallCommon) bool {
	n := p.calleeName(c)
	if strings.HasPrefix(n, "builtin.") {
		switch n {
		case "builtin.copy", "builtin.delete", "builtin.clear", "builtin.close":
			return false
		}
		return true
	}
	if con, ok := p.CS.ByName[n]; ok && !con.sweepOnly() && (con.Pure || (con.HasMod && len(con.Modifies) == 0)) {
		return true
	}
	if con, ok := p.CS.ByName[n]; ok && con.Inline && con.Extern && !strings.Contains(n, ".Put") {
		// inlined leaf helpers of the standard library (encoding/binary): no side effects of their own
		return true
	}
	return p.CS.isPure(n)
}

func isSliceOfScalars(t types.Type) bool {
	sl, ok := under(t).(*types.Slice)
	if !ok {
		return false
	}
	_, ok = scalarWidth(sl.Elem())
	return ok
}

func isContractFile(path string) bool {
	b := filepath.Base(path)
	return strings.HasPrefix(b, "contracts") && strings.HasSuffix(b, "_verif.go")
}

// typeHolds: can a value of type t contain (directly, in a field or element) a
// value of type want? Go is type safe: a store of a T changes only memory of type T.
func typeHolds(t, want types.Type, depth int) bool {
	if depth > 6 {
		return true
	}
	if types.Identical(t, want) || types.Identical(under(t), under(want)) {
		return true
	}
	switch x := under(t).(type) {
	case *types.Struct:
		for i := 0; i < x.NumFields(); i++ {
			if typeHolds(x.Field(i).Type(), want, depth+1) {
				return true
			}
		}
	case *types.Array:
		return typeHolds(x.Elem(), want, depth+1)
	case *types.Interface:
		return types.IsInterface(want)
	}
	return false
}
