package main

// Contract files: comment-only Go files (//go:build verif) kept next to the
// code in /repo/<pkg>/contracts_verif.go, plus assumed contracts of
// dependencies and interfaces in /verif/spec/assumed/*.spec.
//
// Grammar (one directive per "//@" line; continuation lines start with "//@ |"):
//
//   func <name>              contract of a function of the module (verified)
//   extern <name>            ASSUMED contract of a dependency / interface method
//     requires [@label] <e>
//     ensures  [@label] <e>
//     invariant loop#<k>: <e>
//     modifies <e>, <e> ...  | pure | modifies nothing
//     sweep <class>,<class>...     bounds,nilmem,make,panic,div,typeassert,nooverflow
//     makelimit <n>
//     inline                 callers execute the body (obligations checked in caller context)
//     assume <e>             unchecked assumption at function entry (listed in evidence)
//     nopaths                do not execute the body (contract only used at call sites)
//     props C01,C05          properties this unit serves
//   spec func <name>(<sort>,...) <sort>      uninterpreted function; sorts: U, Bool, bv8..bv64, int
//   spec macro <name>(<p>,...) = <e>
//   pure-externs <name>, <name>, pkg.*        dependencies assumed to be side-effect free

import (
	"bufio"
	"fmt"
	"os"
	"path/filepath"
	"regexp"
	"strconv"
	"strings"
)

type Clause struct {
	Trusted  bool // "ensures!": assumed at call sites, not checked against the body (listed)
	Optional bool // "?": only where evaluable (speaks about locals / dynamic values)
	Post     bool // ghostpost: value evaluated in the post-state
	Label string
	Src   string
	Line  string // file:line
}

type Contract struct {
	Name       string
	Extern     bool
	File       string
	Requires   []Clause
	Ensures    []Clause
	Assumes    []Clause
	Invariants map[int][]Clause
	Nilable    map[string]bool  // pointer parameters that callers may pass as nil: dereferencing needs a dominating test (class nil)
	EveryIter  map[int][]string // loop ordinal -> callees of which every completed iteration passes a site
	Modifies   []string
	HasMod     bool // a modifies/pure clause was given
	Pure       bool
	Sweep      map[string]bool
	MakeLimit  int64
	RecvNonNil bool // ASSUMPTION: interface values received from channels are non-nil
	Inline     bool
	NoPaths    bool
	Props      []string
	Trusted    []string
	MaxPaths   int
	GhostSets  []Clause            // "field(expr) := expr" applied at call sites after the frame havoc
	CallSites  map[string]int      // "<callee short name>" -> exact number of static call sites
	Ghosts     []string            // ghost variables (int) bound to fresh symbols
	CallAsserts map[string][]Clause // "<callee short name>#<ordinal>" -> assertions checked before that call
	ParamNames  []string            // names the contract uses for the parameters (positional)
	LocalDefs   map[string][]string // SSA value descriptor -> names the contract uses for it
}

// Registry: a package-level map filled by constant Register* calls in init.
type Registry struct {
	Global string
	Via    string
	Keys   []int64
	Line   string
}

// RegistryValues: per registered key, the constant value of one argument (or of
// one field of a struct-literal argument) of the Register call in init.
type RegistryValues struct {
	Global string
	Arg    string
	Vals   map[int64]int64
	Line   string
}

type SpecFunc struct {
	Name string
	Args []string
	Ret  string
}

type SpecMacro struct {
	Name   string
	Params []string
	Body   string
}

type ContractSet struct {
	ByName map[string]*Contract
	Order  []string
	Funcs  map[string]*SpecFunc
	Macros map[string]*SpecMacro
	GhostFields map[string]bool
	GhostConst  map[string]bool
	Registries  map[string]*Registry
	RegValues   []*RegistryValues
	Pure   []string // patterns
	Files  []string
	Axioms []Clause
}

func newContractSet() *ContractSet {
	return &ContractSet{ByName: map[string]*Contract{}, Funcs: map[string]*SpecFunc{}, Macros: map[string]*SpecMacro{}}
}

var reHead = regexp.MustCompile(`^(func|extern)\s+(\S+)\s*$`)
var reSpecFunc = regexp.MustCompile(`^spec\s+func\s+(\w+)\s*\(([^)]*)\)\s*(\w+)\s*$`)
var reSpecMacro = regexp.MustCompile(`^spec\s+macro\s+(\w+)\s*\(([^)]*)\)\s*=\s*(.+)$`)
var reInv = regexp.MustCompile(`^loop#(\d+)\s*:\s*(.+)$`)
var reProp = regexp.MustCompile(`C\d+(\([^)]*\))?`)
var reLabel = regexp.MustCompile(`^@([\w.-]+)\s+(.+)$`)

func (cs *ContractSet) loadFile(path string) error {
	f, err := os.Open(path)
	if err != nil {
		return err
	}
	defer f.Close()
	cs.Files = append(cs.Files, path)
	isGo := strings.HasSuffix(path, ".go")
	var lines []string
	var nums []int
	sc := bufio.NewScanner(f)
	sc.Buffer(make([]byte, 1<<20), 1<<20)
	n := 0
	for sc.Scan() {
		n++
		l := strings.TrimSpace(sc.Text())
		if isGo {
			if !strings.HasPrefix(l, "//@") {
				continue
			}
			l = strings.TrimSpace(l[3:])
		} else {
			if strings.HasPrefix(l, "//@") {
				l = strings.TrimSpace(l[3:])
			} else if strings.HasPrefix(l, "#") || strings.HasPrefix(l, "//") {
				continue
			}
		}
		if l == "" {
			continue
		}
		if strings.HasPrefix(l, "|") && len(lines) > 0 {
			lines[len(lines)-1] += " " + strings.TrimSpace(l[1:])
			continue
		}
		lines = append(lines, l)
		nums = append(nums, n)
	}
	var cur *Contract
	for i, l := range lines {
		loc := fmt.Sprintf("%s:%d", filepath.Base(path), nums[i])
		if m := reHead.FindStringSubmatch(l); m != nil {
			isSweepFile := strings.Contains(filepath.Base(path), "_sweep_")
			if old, ok := cs.ByName[m[2]]; ok {
				oldSweep := strings.Contains(filepath.Base(old.File), "_sweep_")
				switch {
				case isSweepFile && !oldSweep:
					// a hand-written contract wins over a generated sweep-only one: skip this block
					cur = &Contract{Name: m[2], File: path, Invariants: map[int][]Clause{}, Sweep: map[string]bool{}}
					continue
				case !isSweepFile && oldSweep:
					// replace the generated one
				default:
					return fmt.Errorf("%s: duplicate contract for %s (first in %s)", loc, m[2], old.File)
				}
			}
			cur = &Contract{Name: m[2], Extern: m[1] == "extern", File: path, Invariants: map[int][]Clause{}, Sweep: map[string]bool{}}
			if _, had := cs.ByName[cur.Name]; !had {
				cs.Order = append(cs.Order, cur.Name)
			}
			cs.ByName[cur.Name] = cur
			continue
		}
		if m := reSpecFunc.FindStringSubmatch(l); m != nil {
			sf := &SpecFunc{Name: m[1], Ret: m[3]}
			for _, a := range strings.Split(m[2], ",") {
				if a = strings.TrimSpace(a); a != "" {
					sf.Args = append(sf.Args, a)
				}
			}
			cs.Funcs[sf.Name] = sf
			continue
		}
		if m := reSpecMacro.FindStringSubmatch(l); m != nil {
			sm := &SpecMacro{Name: m[1], Body: m[3]}
			for _, a := range strings.Split(m[2], ",") {
				if a = strings.TrimSpace(a); a != "" {
					sm.Params = append(sm.Params, a)
				}
			}
			cs.Macros[sm.Name] = sm
			continue
		}
		if strings.HasPrefix(l, "registry-values ") {
			// registry-values <global> arg<N>[.Field] k=v,k=v,...   constant argument of the Register call per key
			f := strings.Fields(l)
			if len(f) < 4 {
				return fmt.Errorf("%s: registry-values <global> arg<N>[.Field] k=v,...", loc)
			}
			rv := &RegistryValues{Global: f[1], Arg: f[2], Line: loc, Vals: map[int64]int64{}}
			for _, kv := range strings.Split(strings.Join(f[3:], ""), ",") {
				if kv = strings.TrimSpace(kv); kv == "" {
					continue
				}
				ks, vs, ok := strings.Cut(kv, "=")
				k, e1 := strconv.ParseInt(ks, 0, 64)
				v, e2 := strconv.ParseInt(vs, 0, 64)
				if !ok || e1 != nil || e2 != nil {
					return fmt.Errorf("%s: bad registry value %q", loc, kv)
				}
				rv.Vals[k] = v
			}
			cs.RegValues = append(cs.RegValues, rv)
			continue
		}
		if strings.HasPrefix(l, "registry ") {
			// registry <global> via <RegisterFunc> keys k1,k2,...
			f := strings.Fields(l)
			if len(f) < 6 || f[2] != "via" || f[4] != "keys" {
				return fmt.Errorf("%s: registry <global> via <func> keys k1,k2,...", loc)
			}
			r := &Registry{Global: f[1], Via: f[3], Line: loc}
			for _, k := range strings.Split(strings.Join(f[5:], ""), ",") {
				if k = strings.TrimSpace(k); k != "" {
					v, err := strconv.ParseInt(k, 0, 64)
					if err != nil {
						return fmt.Errorf("%s: bad registry key %q", loc, k)
					}
					r.Keys = append(r.Keys, v)
				}
			}
			if cs.Registries == nil {
				cs.Registries = map[string]*Registry{}
			}
			cs.Registries[r.Global] = r
			continue
		}
		if strings.HasPrefix(l, "spec ghostconst ") {
			if cs.GhostFields == nil {
				cs.GhostFields = map[string]bool{}
			}
			if cs.GhostConst == nil {
				cs.GhostConst = map[string]bool{}
			}
			for _, p := range strings.Split(l[len("spec ghostconst "):], ",") {
				if p = strings.TrimSpace(p); p != "" {
					cs.GhostFields[p] = true
					cs.GhostConst[p] = true
				}
			}
			continue
		}
		if strings.HasPrefix(l, "spec ghost ") {
			if cs.GhostFields == nil {
				cs.GhostFields = map[string]bool{}
			}
			for _, p := range strings.Split(l[len("spec ghost "):], ",") {
				if p = strings.TrimSpace(p); p != "" {
					cs.GhostFields[p] = true
				}
			}
			continue
		}
		if strings.HasPrefix(l, "pure-externs ") {
			for _, p := range strings.Split(l[len("pure-externs "):], ",") {
				if p = strings.TrimSpace(p); p != "" {
					cs.Pure = append(cs.Pure, p)
				}
			}
			continue
		}
		if strings.HasPrefix(l, "axiom ") {
			cs.Axioms = append(cs.Axioms, Clause{Src: strings.TrimSpace(l[6:]), Line: loc})
			continue
		}
		if cur == nil {
			return fmt.Errorf("%s: directive outside a func/extern block: %s", loc, l)
		}
		kw, rest, _ := strings.Cut(l, " ")
		rest = strings.TrimSpace(rest)
		mk := func() Clause {
			c := Clause{Src: rest, Line: loc}
			if m := reLabel.FindStringSubmatch(rest); m != nil {
				c.Label, c.Src = m[1], m[2]
			}
			if strings.HasPrefix(c.Src, "?") {
				c.Optional = true
				c.Src = strings.TrimSpace(c.Src[1:])
			}
			return c
		}
		switch kw {
		case "requires":
			cur.Requires = append(cur.Requires, mk())
		case "ensures":
			cur.Ensures = append(cur.Ensures, mk())
		case "ensures!":
			c := mk()
			c.Trusted = true
			cur.Ensures = append(cur.Ensures, c)
		case "assume":
			cur.Assumes = append(cur.Assumes, mk())
		case "invariant":
			m := reInv.FindStringSubmatch(rest)
			if m == nil {
				return fmt.Errorf("%s: invariant needs loop#k: prefix", loc)
			}
			k, _ := strconv.Atoi(m[1])
			c := Clause{Src: m[2], Line: loc}
			cur.Invariants[k] = append(cur.Invariants[k], c)
		case "nilable":
			if cur.Nilable == nil {
				cur.Nilable = map[string]bool{}
			}
			for _, n := range strings.Fields(rest) {
				cur.Nilable[n] = true
			}
		case "everyiter":
			m := reInv.FindStringSubmatch(rest)
			if m == nil {
				return fmt.Errorf("%s: everyiter needs loop#k: prefix", loc)
			}
			k, _ := strconv.Atoi(m[1])
			if cur.EveryIter == nil {
				cur.EveryIter = map[int][]string{}
			}
			cur.EveryIter[k] = append(cur.EveryIter[k], strings.Fields(m[2])...)
		case "modifies":
			cur.HasMod = true
			if rest != "nothing" {
				for _, p := range splitTop(rest, ',') {
					cur.Modifies = append(cur.Modifies, strings.TrimSpace(p))
				}
			}
		case "pure":
			cur.HasMod, cur.Pure = true, true
		case "sweep":
			for _, p := range strings.Split(rest, ",") {
				if p = strings.TrimSpace(p); p != "" {
					cur.Sweep[p] = true
				}
			}
		case "makelimit":
			cur.MakeLimit, _ = strconv.ParseInt(rest, 0, 64)
		case "maxpaths":
			cur.MaxPaths, _ = strconv.Atoi(rest)
		case "inline":
			cur.Inline = true
		case "recvnonnil":
			cur.RecvNonNil = true
			cur.Trusted = append(cur.Trusted, "interface values received from channels are non-nil (senders only send constructed pipes)")
		case "nopaths":
			cur.NoPaths = true
		case "props":
			cur.Props = append(cur.Props, reProp.FindAllString(rest, -1)...)
		case "callsites":
			f := strings.Fields(rest)
			if len(f) != 2 {
				return fmt.Errorf("%s: callsites <callee> <n>", loc)
			}
			if cur.CallSites == nil {
				cur.CallSites = map[string]int{}
			}
			cur.CallSites[f[0]], _ = strconv.Atoi(f[1])
		case "params":
			// the parameter names the contract was written against, in order
			// (receiver first): bound positionally, so renaming a parameter in the
			// source does not invalidate the contract
			cur.ParamNames = strings.Fields(rest)
		case "local":
			// local <name> = <descriptor> | <descriptor> ...: the SSA values the name
			// stood for when the contract was written (tools/add_locals.py); bound in
			// addition to the current source names, so renaming a local is harmless
			nm, ds, ok := strings.Cut(rest, "=")
			if !ok {
				return fmt.Errorf("%s: local <name> = <descriptor> | ...", loc)
			}
			nm = strings.TrimSpace(nm)
			if cur.LocalDefs == nil {
				cur.LocalDefs = map[string][]string{}
			}
			for _, d := range strings.Split(ds, "|") {
				if d = strings.TrimSpace(d); d != "" {
					cur.LocalDefs[d] = append(cur.LocalDefs[d], nm)
				}
			}
		case "ghostset":
			cur.GhostSets = append(cur.GhostSets, mk())
		case "ghostpost":
			// like ghostset, but the value is evaluated in the post-state (it may
			// speak about results and about what the callee wrote)
			c := mk()
			c.Post = true
			cur.GhostSets = append(cur.GhostSets, c)
		case "ghost":
			for _, p := range strings.Split(rest, ",") {
				if p = strings.TrimSpace(p); p != "" {
					cur.Ghosts = append(cur.Ghosts, p)
				}
			}
		case "callassert":
			key, e, ok := strings.Cut(rest, ":")
			if !ok {
				return fmt.Errorf("%s: callassert needs <callee>#<n>: <expr>", loc)
			}
			if cur.CallAsserts == nil {
				cur.CallAsserts = map[string][]Clause{}
			}
			c := Clause{Src: strings.TrimSpace(e), Line: loc}
			if m := reLabel.FindStringSubmatch(c.Src); m != nil {
				c.Label, c.Src = m[1], m[2]
			}
			if strings.HasPrefix(c.Src, "?") {
				c.Optional = true
				c.Src = strings.TrimSpace(c.Src[1:])
			}
			key = strings.TrimSpace(key)
			cur.CallAsserts[key] = append(cur.CallAsserts[key], c)
		case "trusted":
			cur.Trusted = append(cur.Trusted, rest)
		default:
			return fmt.Errorf("%s: unknown directive %q", loc, kw)
		}
	}
	return nil
}

// splitTop splits s at sep outside parentheses/brackets.
func splitTop(s string, sep byte) []string {
	var out []string
	d := 0
	last := 0
	for i := 0; i < len(s); i++ {
		switch s[i] {
		case '(', '[', '{':
			d++
		case ')', ']', '}':
			d--
		case '"':
			for i++; i < len(s) && s[i] != '"'; i++ {
				if s[i] == '\\' {
					i++
				}
			}
		default:
			if s[i] == sep && d == 0 {
				out = append(out, s[last:i])
				last = i + 1
			}
		}
	}
	return append(out, s[last:])
}

func (cs *ContractSet) isPure(name string) bool {
	for _, p := range cs.Pure {
		if p == name {
			return true
		}
		if strings.HasSuffix(p, "*") && strings.HasPrefix(name, p[:len(p)-1]) {
			return true
		}
	}
	return false
}

// sweepOnly: the contract has nothing a caller could use or must establish.
func (c *Contract) sweepOnly() bool {
	return len(c.Requires) == 0 && len(c.Ensures) == 0 && !c.HasMod && len(c.GhostSets) == 0 && !c.NoPaths && !c.Inline && !c.Extern
}
