package main

import (
	"flag"
	"fmt"
	"os"
)

var sweepPrefix string

func main() {
	if len(os.Args) < 2 {
		fmt.Fprintln(os.Stderr, "usage: govc check <Cxx> <quick|thorough> | govc run [-fn name] | govc list")
		os.Exit(2)
	}
	switch os.Args[1] {
	case "run":
		fs := flag.NewFlagSet("run", flag.ExitOnError)
		fn := fs.String("fn", "", "function (canonical name) or comma list; empty = all with contracts")
		mod := fs.String("mod", "", "module dir relative to /repo ('' = root, fsim, sqlite)")
		verbose := fs.Bool("v", false, "verbose")
		keep := fs.String("keep", "", "keep SMT files in this dir")
		timeout := fs.Int("t", 10, "solver timeout (s)")
		sweep := fs.String("sweep", "", "zero-annotation safety sweep over all functions whose name has this prefix (e.g. cbor.)")
		fs.Parse(os.Args[2:])
		sweepPrefix = *sweep
		os.Exit(cmdRun(*fn, *mod, *verbose, *keep, *timeout))
	case "check":
		if len(os.Args) < 4 {
			fmt.Fprintln(os.Stderr, "usage: govc check <Cxx> <quick|thorough>")
			os.Exit(2)
		}
		os.Exit(cmdCheck(os.Args[2], os.Args[3]))
	case "replay":
		os.Exit(cmdReplay(os.Args[2]))
	case "selftest":
		os.Exit(cmdSelftest(os.Args[2:]))
	case "params":
		os.Exit(cmdParams())
	case "locals":
		os.Exit(cmdLocals())
	case "baseline":
		if len(os.Args) > 2 && os.Args[2] == "thorough" {
			os.Exit(cmdBaselineThorough())
		}
		os.Exit(cmdBaseline())
	default:
		fmt.Fprintln(os.Stderr, "unknown command", os.Args[1])
		os.Exit(2)
	}
}
