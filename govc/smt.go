package main

// SMT-LIB term construction, symbol table and solver racing.
//
// Every typed Go integer is a bit-vector of its width (int/uint/uintptr = 64).
// Terms are plain strings; symbols are declared in a per-run symbol table.

import (
	"bytes"
	"context"
	"fmt"
	"os"
	"os/exec"
	"path/filepath"
	"regexp"
	"sort"
	"strings"
	"sync"
	"time"
)

const (
	sortU    = "U"
	sortBool = "Bool"
)

func bvSort(w int) string { return fmt.Sprintf("(_ BitVec %d)", w) }

func bvLit(v uint64, w int) string {
	if w < 64 {
		v &= (uint64(1) << uint(w)) - 1
	}
	return fmt.Sprintf("(_ bv%d %d)", v, w)
}

func bvLitI(v int64, w int) string { return bvLit(uint64(v), w) }

var reBvLit = regexp.MustCompile(`^\(_ bv(\d+) (\d+)\)$`)

// litVal returns the literal value of a bit-vector literal term.
func litVal(t string) (uint64, bool) {
	m := reBvLit.FindStringSubmatch(t)
	if m == nil {
		return 0, false
	}
	var v uint64
	_, err := fmt.Sscanf(m[1], "%d", &v)
	return v, err == nil
}

func app(op string, args ...string) string {
	return "(" + op + " " + strings.Join(args, " ") + ")"
}

func mkNot(a string) string {
	switch a {
	case "true":
		return "false"
	case "false":
		return "true"
	}
	if strings.HasPrefix(a, "(not ") && balancedOne(a[5:len(a)-1]) {
		return a[5 : len(a)-1]
	}
	return "(not " + a + ")"
}

// balancedOne reports whether s is exactly one s-expression.
func balancedOne(s string) bool {
	if s == "" {
		return false
	}
	if s[0] != '(' {
		return !strings.ContainsAny(s, " ()")
	}
	d := 0
	for i, c := range s {
		switch c {
		case '(':
			d++
		case ')':
			d--
			if d == 0 && i != len(s)-1 {
				return false
			}
		}
	}
	return d == 0
}

func mkAnd(as ...string) string {
	var out []string
	for _, a := range as {
		if a == "true" {
			continue
		}
		if a == "false" {
			return "false"
		}
		out = append(out, a)
	}
	switch len(out) {
	case 0:
		return "true"
	case 1:
		return out[0]
	}
	return app("and", out...)
}

func mkOr(as ...string) string {
	var out []string
	for _, a := range as {
		if a == "false" {
			continue
		}
		if a == "true" {
			return "true"
		}
		out = append(out, a)
	}
	switch len(out) {
	case 0:
		return "false"
	case 1:
		return out[0]
	}
	return app("or", out...)
}

func mkImp(a, b string) string {
	if a == "true" {
		return b
	}
	if a == "false" || b == "true" {
		return "true"
	}
	return app("=>", a, b)
}

func mkEq(a, b string) string {
	if a == b {
		return "true"
	}
	if va, ok := litVal(a); ok {
		if vb, ok2 := litVal(b); ok2 {
			if va == vb {
				return "true"
			}
			return "false"
		}
	}
	return app("=", a, b)
}

func mkIte(c, a, b string) string {
	if c == "true" {
		return a
	}
	if c == "false" {
		return b
	}
	if a == b {
		return a
	}
	return app("ite", c, a, b)
}

// Symtab holds declarations of all symbols created during one function run.
type Symtab struct {
	mu    sync.Mutex
	n     int
	decl  map[string]string // symbol -> full declaration line
	order []string
}

func newSymtab() *Symtab { return &Symtab{decl: map[string]string{}} }

var reSan = regexp.MustCompile(`[^A-Za-z0-9_.]`)

func sanitize(s string) string {
	s = reSan.ReplaceAllString(s, "_")
	if len(s) > 40 {
		s = s[:40]
	}
	return s
}

func (st *Symtab) fresh(prefix, sort string) string {
	st.mu.Lock()
	defer st.mu.Unlock()
	st.n++
	name := fmt.Sprintf("%s!%d", sanitize(prefix), st.n)
	st.decl[name] = fmt.Sprintf("(declare-fun %s () %s)", name, sort)
	st.order = append(st.order, name)
	return name
}

// declare registers a named (stable) symbol or function once.
func (st *Symtab) declare(name string, args []string, ret string) string {
	st.mu.Lock()
	defer st.mu.Unlock()
	if _, ok := st.decl[name]; !ok {
		st.decl[name] = fmt.Sprintf("(declare-fun %s (%s) %s)", name, strings.Join(args, " "), ret)
		st.order = append(st.order, name)
	}
	return name
}

var reTok = regexp.MustCompile(`[A-Za-z_][A-Za-z0-9_.!]*`)

// script renders a query: declarations of the symbols referenced, the
// assumptions, and the negated goal.
func (st *Symtab) script(assumes []string, goal string, wantModel bool, values ...string) string {
	var b strings.Builder
	used := map[string]bool{}
	scan := func(s string) {
		for _, t := range reTok.FindAllString(s, -1) {
			used[t] = true
		}
	}
	for _, a := range assumes {
		scan(a)
	}
	scan(goal)
	for _, v := range values {
		scan(v)
	}
	if wantModel {
		b.WriteString("(set-option :produce-models true)\n")
	}
	b.WriteString("(set-logic ALL)\n(declare-sort U 0)\n")
	// declarations of the symbols used (the table is read-only once the
	// symbolic execution of the unit is over; declarations are independent)
	names := make([]string, 0, len(used))
	for t := range used {
		if _, ok := st.decl[t]; ok {
			names = append(names, t)
		}
	}
	sort.Strings(names)
	for _, name := range names {
		b.WriteString(st.decl[name])
		b.WriteByte('\n')
	}
	for _, a := range assumes {
		if a == "true" {
			continue
		}
		b.WriteString("(assert ")
		b.WriteString(a)
		b.WriteString(")\n")
	}
	b.WriteString("(assert ")
	b.WriteString(mkNot(goal))
	b.WriteString(")\n(check-sat)\n")
	if wantModel && len(values) > 0 {
		b.WriteString("(get-value (" + strings.Join(values, " ") + "))\n")
	} else if wantModel {
		b.WriteString("(get-model)\n")
	}
	return b.String()
}

// SolveResult is the verdict of one query.
type SolveResult struct {
	Status  string  // unsat | sat | unknown | timeout | error
	Backend string  // which solver decided
	Secs    float64 // wall time of the deciding solver
	Output  string  // raw output (model or error), truncated
}

type solverSpec struct {
	name string
	argv func(file string, timeoutS int) []string
}

var solverSpecs = []solverSpec{
	{"z3-5.1.0", func(f string, t int) []string { return []string{"z3-new", fmt.Sprintf("-T:%d", t), f} }},
	{"z3-4.8.12", func(f string, t int) []string { return []string{"z3", fmt.Sprintf("-T:%d", t), f} }},
	{"cvc5-1.0", func(f string, t int) []string {
		return []string{"cvc5", fmt.Sprintf("--tlimit=%d", t*1000), "--produce-models", f}
	}},
}

func runOne(ctx context.Context, sp solverSpec, file string, timeoutS int) SolveResult {
	t0 := time.Now()
	argv := sp.argv(file, timeoutS)
	cmd := exec.CommandContext(ctx, argv[0], argv[1:]...)
	var out bytes.Buffer
	cmd.Stdout = &out
	cmd.Stderr = &out
	_ = cmd.Run()
	secs := time.Since(t0).Seconds()
	s := out.String()
	first := strings.TrimSpace(strings.SplitN(s, "\n", 2)[0])
	res := SolveResult{Backend: sp.name, Secs: secs, Output: s}
	if len(res.Output) > 6000 {
		res.Output = res.Output[:6000] + "\n...[truncated]"
	}
	switch first {
	case "unsat", "sat", "unknown":
		res.Status = first
	case "timeout":
		res.Status = "timeout"
	default:
		if ctx.Err() != nil {
			res.Status = "timeout"
		} else if strings.Contains(s, "timeout") || strings.Contains(s, "interrupted") {
			res.Status = "timeout"
		} else {
			res.Status = "error"
		}
	}
	return res
}

// solve races the solvers on one script. The first definite answer
// (sat/unsat) wins. agree>1 demands that many solvers to give the same
// definite answer (thorough tier).
func solve(dir, name, script string, timeoutS int, agree int) (SolveResult, []SolveResult) {
	file := filepath.Join(dir, sanitizeFile(name)+".smt2")
	if err := os.WriteFile(file, []byte(script), 0o644); err != nil {
		return SolveResult{Status: "error", Output: err.Error()}, nil
	}
	ctx, cancel := context.WithTimeout(context.Background(), time.Duration(timeoutS+2)*time.Second)
	defer cancel()
	// First try the fast solver alone for a short slice; most queries end here.
	if agree <= 1 {
		r := runOne(ctx, solverSpecs[0], file, min(timeoutS, 3))
		if r.Status == "unsat" || r.Status == "sat" {
			return r, []SolveResult{r}
		}
	}
	ch := make(chan SolveResult, len(solverSpecs))
	for _, sp := range solverSpecs {
		go func(sp solverSpec) { ch <- runOne(ctx, sp, file, timeoutS) }(sp)
	}
	var all []SolveResult
	count := map[string]int{}
	var best SolveResult
	best.Status = "unknown"
	for range solverSpecs {
		r := <-ch
		all = append(all, r)
		if r.Status == "unsat" || r.Status == "sat" {
			count[r.Status]++
			if best.Status != "unsat" && best.Status != "sat" {
				best = r
			}
			if count[r.Status] >= agree {
				cancel()
				best = r
				if agree > 1 {
					best.Backend = fmt.Sprintf("%s(+%d agreeing)", r.Backend, agree-1)
				}
				return best, all
			}
		} else if best.Status != "unsat" && best.Status != "sat" {
			if best.Status == "unknown" || r.Status == "timeout" {
				best = r
			}
		}
	}
	if count["sat"] > 0 && count["unsat"] > 0 {
		best.Status = "error"
		best.Output = "solvers disagree"
	}
	if agree > 1 && (best.Status == "sat" || best.Status == "unsat") && count[best.Status] < agree {
		// Only one solver decided; keep its answer but say so.
		best.Backend += "(single)"
	}
	return best, all
}

func sanitizeFile(s string) string {
	s = regexp.MustCompile(`[^A-Za-z0-9_.#:-]`).ReplaceAllString(s, "_")
	if len(s) > 150 {
		s = s[:150]
	}
	return s
}

// parseModel extracts constant definitions from a (get-model) answer:
// symbol -> value term.
var reDefine = regexp.MustCompile(`\(define-fun\s+(\S+)\s+\(\)\s+(\(_ BitVec \d+\)|Bool|U)\s+([^\n]+?)\)\s*(?:\n|$)`)

func parseModel(out string) map[string]string {
	m := map[string]string{}
	// Normalise whitespace so multi-line definitions match.
	flat := regexp.MustCompile(`\s+`).ReplaceAllString(out, " ")
	flat = strings.ReplaceAll(flat, "(define-fun", "\n(define-fun")
	for _, mm := range reDefine.FindAllStringSubmatch(flat+"\n", -1) {
		m[mm[1]] = strings.TrimSpace(mm[3])
	}
	return m
}

func modelUint(v string) (uint64, bool) {
	v = strings.TrimSpace(v)
	if strings.HasPrefix(v, "#x") {
		var x uint64
		_, err := fmt.Sscanf(v[2:], "%x", &x)
		return x, err == nil
	}
	if strings.HasPrefix(v, "#b") {
		var x uint64
		for _, c := range v[2:] {
			x = x<<1 | uint64(c-'0')
		}
		return x, true
	}
	if x, ok := litVal(v); ok {
		return x, true
	}
	return 0, false
}

func sortedKeys[V any](m map[string]V) []string {
	ks := make([]string, 0, len(m))
	for k := range m {
		ks = append(ks, k)
	}
	sort.Strings(ks)
	return ks
}

// solveBatch runs several independent queries in one z3 process, separated
// by (reset). Results are positional; a query without an answer is "unknown".
func solveBatch(dir string, scripts []string, perQueryS int) []SolveResult {
	res := make([]SolveResult, len(scripts))
	for i := range res {
		res[i] = SolveResult{Status: "unknown", Backend: "z3-5.1.0"}
	}
	var b strings.Builder
	for i, sc := range scripts {
		fmt.Fprintf(&b, "(echo \"@@Q %d\")\n(set-option :timeout %d)\n", i, perQueryS*1000)
		b.WriteString(sc)
		b.WriteString("(reset)\n")
	}
	f, err := os.CreateTemp(dir, "batch-*.smt2")
	if err != nil {
		return res
	}
	f.WriteString(b.String())
	f.Close()
	defer os.Remove(f.Name())
	ctx, cancel := context.WithTimeout(context.Background(), time.Duration(len(scripts)*perQueryS+10)*time.Second)
	defer cancel()
	t0 := time.Now()
	cmd := exec.CommandContext(ctx, "z3-new", f.Name())
	var out bytes.Buffer
	cmd.Stdout = &out
	cmd.Stderr = &out
	_ = cmd.Run()
	secs := time.Since(t0).Seconds() / float64(len(scripts))
	cur := -1
	for _, line := range strings.Split(out.String(), "\n") {
		line = strings.TrimSpace(line)
		if strings.HasPrefix(line, "@@Q ") || strings.HasPrefix(line, "\"@@Q ") {
			fmt.Sscanf(strings.Trim(line, "\""), "@@Q %d", &cur)
			continue
		}
		if cur >= 0 && cur < len(res) {
			switch line {
			case "unsat", "sat", "unknown":
				res[cur].Status = line
				res[cur].Secs = secs
			}
		}
	}
	return res
}

// parseValues parses a (get-value ...) answer: term -> value.
func parseValues(out string) map[string]string {
	m := map[string]string{}
	i := strings.Index(out, "((")
	if i < 0 {
		return m
	}
	s := out[i+1:]
	// s is a sequence of (term value) pairs followed by ")"
	pos := 0
	readSexp := func() string {
		for pos < len(s) && (s[pos] == ' ' || s[pos] == '\n' || s[pos] == '\t' || s[pos] == '\r') {
			pos++
		}
		if pos >= len(s) {
			return ""
		}
		start := pos
		if s[pos] != '(' {
			for pos < len(s) && !strings.ContainsRune(" \n\t\r()", rune(s[pos])) {
				pos++
			}
			return s[start:pos]
		}
		d := 0
		for pos < len(s) {
			switch s[pos] {
			case '(':
				d++
			case ')':
				d--
				if d == 0 {
					pos++
					return s[start:pos]
				}
			}
			pos++
		}
		return s[start:]
	}
	for {
		for pos < len(s) && (s[pos] == ' ' || s[pos] == '\n' || s[pos] == '\t' || s[pos] == '\r') {
			pos++
		}
		if pos >= len(s) || s[pos] != '(' {
			break
		}
		pos++ // open pair
		t := readSexp()
		v := readSexp()
		for pos < len(s) && s[pos] != ')' {
			pos++
		}
		pos++
		if t == "" {
			break
		}
		m[normSpace(t)] = normSpace(v)
	}
	return m
}

func normSpace(s string) string { return strings.Join(strings.Fields(s), " ") }
