package main

// Running units (functions under contract), discharging obligations.

import (
	"fmt"
	"os"
	"path/filepath"
	"sort"
	"strings"
	"sync"
	"time"
)

func repoRoot() string {
	if r := os.Getenv("VERIF_REPO"); r != "" {
		return r
	}
	return "/repo"
}

func verifRoot() string {
	if r := os.Getenv("VERIF_ROOT"); r != "" {
		return r
	}
	return "/verif"
}

// moduleOf maps a canonical function name to the module directory.
func moduleOf(name string) string {
	switch {
	case strings.HasPrefix(name, "fsim."):
		return "fsim"
	case strings.HasPrefix(name, "sqlite."):
		return "sqlite"
	}
	return ""
}

type ObSummary struct {
	Name      string   `json:"name"`
	Class     string   `json:"class"`
	Fn        string   `json:"fn"`
	Status    string   `json:"status"` // discharged | failed | undecided
	Instances int      `json:"instances"`
	Backend   string   `json:"backend"`
	Secs      float64  `json:"solver_s"`
	Pos       string   `json:"pos,omitempty"`
	Src       string   `json:"src,omitempty"`
	Desc      string   `json:"desc,omitempty"`
	Witness   *Obligation `json:"-"`
	SMTBytes  int      `json:"smt_bytes"`
}

type UnitResult struct {
	Name     string
	Paths    int
	Aborted  string
	Obs      []*ObSummary
	Notes    map[string]int
	UsedCons []string
	Havocked map[string]int
	Inlined  map[string]int
	Instances int
	ExecSecs float64
}

type Session struct {
	cs      *ContractSet
	progs   map[string]*Prog
	workdir string
	keep    bool
	timeout int
	agree   int
	mu      sync.Mutex
	LoadSecs float64
	fallbackContracts []string
}

func newSession(keepDir string, timeout int) (*Session, error) {
	s := &Session{progs: map[string]*Prog{}, timeout: timeout, agree: 1}
	if keepDir != "" {
		s.workdir, s.keep = keepDir, true
		os.MkdirAll(keepDir, 0o755)
	} else {
		d, err := os.MkdirTemp("", "govc-")
		if err != nil {
			return nil, err
		}
		s.workdir = d
	}
	return s, nil
}

func (s *Session) close() {
	if !s.keep {
		os.RemoveAll(s.workdir)
	}
}

// prog loads a module (once) together with all contracts.
func (s *Session) prog(mod string) (*Prog, error) {
	if p, ok := s.progs[mod]; ok {
		return p, nil
	}
	t0 := time.Now()
	cs := newContractSet()
	// assumed contracts of dependencies and interfaces
	specs, _ := filepath.Glob(filepath.Join(verifRoot(), "spec", "assumed", "*.spec"))
	sort.Strings(specs)
	for _, f := range specs {
		if err := cs.loadFile(f); err != nil {
			return nil, err
		}
	}
	dir := filepath.Join(repoRoot(), mod)
	p, err := loadProg(dir, cs)
	if err != nil {
		return p, err
	}
	// contract files missing from the repository: use the mirror
	mirror := filepath.Join(verifRoot(), "contracts", mod)
	filepath.Walk(mirror, func(path string, info os.FileInfo, err error) error {
		if err != nil || info.IsDir() || !isContractFile(info.Name()) {
			return nil
		}
		rel, _ := filepath.Rel(mirror, path)
		if mod == "" && (strings.HasPrefix(rel, "fsim/") || strings.HasPrefix(rel, "sqlite/")) {
			return nil
		}
		inRepo := filepath.Join(dir, rel)
		for _, f := range cs.Files {
			if f == inRepo {
				return nil
			}
		}
		if mod != "" {
			// the mirror keeps sub-module files under contracts/<mod>/
		}
		if os.Getenv("VERIF_NO_MIRROR") != "" {
			return nil
		}
		if e := cs.loadFile(path); e != nil {
			p.Errors = append(p.Errors, e.Error())
		}
		s.fallbackContracts = append(s.fallbackContracts, rel)
		return nil
	})
	p.Errors = append(p.Errors, p.checkRegistries()...)
	p.Errors = append(p.Errors, p.checkRegistryValues()...)
	if len(p.Errors) > 0 {
		return p, fmt.Errorf("%s", strings.Join(p.Errors, "; "))
	}
	s.progs[mod] = p
	s.LoadSecs += time.Since(t0).Seconds()
	return p, nil
}

// runUnits executes the named functions and discharges their obligations.
func (s *Session) runUnits(names []string) ([]*UnitResult, error) {
	type job struct {
		name string
		prog *Prog
	}
	var jobs []job
	for _, n := range names {
		p, err := s.prog(moduleOf(n))
		if err != nil {
			return nil, err
		}
		jobs = append(jobs, job{n, p})
	}
	results := make([]*UnitResult, len(jobs))
	// symbolic execution: sequential per program (shared SSA caches), cheap
	execs := make([]*Exec, len(jobs))
	for i, j := range jobs {
		t0 := time.Now()
		con := j.prog.CS.ByName[j.name]
		fn := j.prog.Funcs[j.name]
		r := &UnitResult{Name: j.name}
		results[i] = r
		if con == nil {
			r.Aborted = "no contract for " + j.name
			continue
		}
		if fn == nil {
			r.Aborted = "function " + j.name + " not found in the source tree (stale contract)"
			continue
		}
		ex := runFunction(j.prog, j.name, fn, con)
		execs[i] = ex
		r.Paths, r.Aborted, r.Notes = ex.paths, ex.aborted, ex.w.notes
		r.Havocked, r.Inlined = ex.havocked, ex.inlined
		r.UsedCons = sortedKeys(ex.usedCons)
		r.Instances = len(ex.obls)
		r.ExecSecs = time.Since(t0).Seconds()
		if os.Getenv("GOVC_DEBUG") != "" {
			fmt.Fprintf(os.Stderr, "unit %s: %d paths, %d instances, %d symbols, exec %.1fs\n", j.name, ex.paths, len(ex.obls), len(ex.w.st.order), r.ExecSecs)
		}
	}
	// solve
	type task struct {
		ex *Exec
		o  *Obligation
		id int
	}
	var tasks []task
	for _, ex := range execs {
		if ex == nil {
			continue
		}
		for k, o := range ex.obls {
			if o.Res.Status == "" && o.Class != "cover" {
				tasks = append(tasks, task{ex, o, k})
			}
		}
	}
	// cover queries: per obligation name, instances are tried in rounds until one
	// is satisfiable
	type cgroup struct {
		ex    *Exec
		insts []*Obligation
		done  bool
	}
	var cgroups []*cgroup
	for _, ex := range execs {
		if ex == nil {
			continue
		}
		idx := map[string]*cgroup{}
		for _, o := range ex.obls {
			if o.Class != "cover" {
				continue
			}
			g := idx[o.Name]
			if g == nil {
				g = &cgroup{ex: ex}
				idx[o.Name] = g
				cgroups = append(cgroups, g)
			}
			g.insts = append(g.insts, o)
		}
	}
	for round := 0; round < 40; round++ {
		var cur []*Obligation
		var curG []*cgroup
		for _, g := range cgroups {
			if !g.done && round < len(g.insts) {
				cur = append(cur, g.insts[round])
				curG = append(curG, g)
			}
		}
		if len(cur) == 0 {
			break
		}
		const cb = 24
		var cwg sync.WaitGroup
		sem := make(chan struct{}, 8)
		for i := 0; i < len(cur); i += cb {
			lo, hi := i, min(i+cb, len(cur))
			cwg.Add(1)
			sem <- struct{}{}
			go func() {
				defer cwg.Done()
				defer func() { <-sem }()
				scripts := make([]string, hi-lo)
				for k := lo; k < hi; k++ {
					scripts[k-lo] = curG[k].ex.w.st.script(cur[k].Assumes, cur[k].Goal, false)
				}
				res := solveBatch(s.workdir, scripts, 3)
				for k := lo; k < hi; k++ {
					cur[k].Res = res[k-lo]
					if d := os.Getenv("GOVC_DEBUG_COVER"); d != "" && res[k-lo].Status != "sat" {
						os.MkdirAll(d, 0o755)
						os.WriteFile(filepath.Join(d, sanitizeFile(fmt.Sprintf("%s-r%d-%s", cur[k].Name, round, res[k-lo].Status))+".smt2"), []byte(scripts[k-lo]), 0o644)
					}
					cur[k].Assumes = nil
					if res[k-lo].Status == "sat" {
						curG[k].done = true
					}
				}
			}()
		}
		cwg.Wait()
	}
	for _, g := range cgroups {
		for _, o := range g.insts {
			o.Assumes = nil
			if o.Res.Status == "" {
				o.Res = SolveResult{Status: "skipped", Backend: "-"}
			}
		}
	}
	// Phase 1: batches through the fast solver (process start-up dominates
	// small queries); anything not proved there goes to phase 2.
	var pending []task
	const batchSize = 24
	var batches [][]task
	for i := 0; i < len(tasks); i += batchSize {
		batches = append(batches, tasks[i:min(i+batchSize, len(tasks))])
	}
	var pmu sync.Mutex
	bch := make(chan []task)
	var wg sync.WaitGroup
	nw := 8
	for w := 0; w < nw; w++ {
		wg.Add(1)
		go func() {
			defer wg.Done()
			for b := range bch {
				scripts := make([]string, len(b))
				for k, t := range b {
					scripts[k] = t.ex.w.st.script(t.o.Assumes, t.o.Goal, false)
				}
				res := solveBatch(s.workdir, scripts, min(s.timeout, 3))
				for k, t := range b {
					want := "unsat"
					if t.o.Expect == "sat" {
						want = "sat"
					}
					if res[k].Status == want && s.agree <= 1 {
						t.o.Res = res[k]
						t.o.Assumes = nil
					} else {
						pmu.Lock()
						pending = append(pending, t)
						pmu.Unlock()
					}
				}
			}
		}()
	}
	for _, b := range batches {
		bch <- b
	}
	close(bch)
	wg.Wait()
	// Phase 2: individual queries, solvers raced, models requested.
	ch := make(chan task)
	for w := 0; w < 5; w++ {
		wg.Add(1)
		go func() {
			defer wg.Done()
			for t := range ch {
				var vals []string
				for _, k := range sortedKeys(t.o.Inputs) {
					vals = append(vals, t.o.Inputs[k])
				}
				script := t.ex.w.st.script(t.o.Assumes, t.o.Goal, true, vals...)
				t.o.SMTBytes = len(script)
				fname := fmt.Sprintf("%s-%d", t.o.Name, t.id)
				t.o.Res, _ = solve(s.workdir, fname, script, s.timeout, s.agree)
				if t.o.Res.Status != "sat" && t.o.Res.Status != "unsat" && strings.Contains(script, "(forall ") {
					// Quantified assumptions make the solvers answer "unknown" on
					// obligations that do not hold. Retry without them: "sat" then
					// means no proof exists from the quantifier-free facts either.
					var qf []string
					for _, a := range t.o.Assumes {
						if !strings.Contains(a, "(forall ") {
							qf = append(qf, a)
						}
					}
					script2 := t.ex.w.st.script(qf, t.o.Goal, true, vals...)
					r2, _ := solve(s.workdir, fname, script2, s.timeout, 1)
					if r2.Status == "sat" {
						r2.Backend += "(quantified assumptions dropped)"
						t.o.Res = r2
					}
				}
				t.o.Res.Output = strings.TrimSpace(t.o.Res.Output)
				t.o.QueryFile = filepath.Join(s.workdir, sanitizeFile(fname)+".smt2")
				if !s.keep && t.o.Res.Status == "unsat" {
					os.Remove(t.o.QueryFile)
				}
				t.o.Assumes = nil
			}
		}()
	}
	for _, t := range pending {
		ch <- t
	}
	close(ch)
	wg.Wait()
	// Phase 3: what timed out in the parallel phases is retried one query at a
	// time with a longer limit, so that a loaded machine does not turn into
	// "undecided" (which is an alarm for an obligation of the baseline).
	for _, t := range pending {
		if t.o.Res.Status == "sat" || t.o.Res.Status == "unsat" || t.o.QueryFile == "" {
			continue
		}
		b, err := os.ReadFile(t.o.QueryFile)
		if err != nil {
			continue
		}
		fname := fmt.Sprintf("%s-%d-retry", t.o.Name, t.id)
		// up to three more attempts, the later ones with other solver seeds (an
		// "unknown" from quantifier instantiation is often a matter of search order)
		for attempt := 0; attempt < 3; attempt++ {
			script := string(b)
			if attempt > 0 {
				script = fmt.Sprintf("(set-option :smt.random_seed %d)\n(set-option :sat.random_seed %d)\n", attempt*7919, attempt*104729) + script
			}
			if r, _ := solve(s.workdir, fname, script, s.timeout*4, 1); r.Status == "sat" || r.Status == "unsat" {
				r.Backend += fmt.Sprintf("(retry %d)", attempt+1)
				r.Output = strings.TrimSpace(r.Output)
				t.o.Res = r
				break
			}
		}
		os.Remove(filepath.Join(s.workdir, sanitizeFile(fname)+".smt2"))
	}
	// aggregate
	for i, ex := range execs {
		if ex == nil {
			continue
		}
		by := map[string]*ObSummary{}
		var order []string
		for _, o := range ex.obls {
			if o.Class == "cover" {
				sm, ok := by[o.Name]
				if !ok {
					sm = &ObSummary{Name: o.Name, Class: o.Class, Fn: o.Fn, Status: "failed", Pos: o.Pos, Src: o.Src, Desc: o.Desc, Backend: "z3-5.1.0"}
					by[o.Name] = sm
					order = append(order, o.Name)
				}
				sm.Instances++
				sm.Secs += o.Res.Secs
				switch o.Res.Status {
				case "sat":
					sm.Status = "discharged"
				case "unsat", "skipped":
				default:
					// a cover query the solver could not decide is not evidence of
					// vacuity: only "every instance unsat" fails a cover
					if sm.Status == "failed" {
						sm.Status = "discharged"
						sm.Backend = "z3-5.1.0:" + o.Res.Status + " (cover not refuted)"
					}
				}
				continue
			}
			sm, ok := by[o.Name]
			if !ok {
				sm = &ObSummary{Name: o.Name, Class: o.Class, Fn: o.Fn, Status: "discharged", Pos: o.Pos, Src: o.Src, Desc: o.Desc}
				by[o.Name] = sm
				order = append(order, o.Name)
			}
			sm.Instances++
			sm.Secs += o.Res.Secs
			good, bad := "unsat", "sat"
			if o.Expect == "sat" {
				good, bad = "sat", "unsat"
			}
			switch o.Res.Status {
			case good:
				if sm.Backend == "" {
					sm.Backend = o.Res.Backend
				}
			case bad:
				if sm.Status != "failed" {
					sm.Status = "failed"
					sm.Witness = o
					sm.Backend = o.Res.Backend
					sm.Pos, sm.Src = o.Pos, o.Src
				}
			default:
				if sm.Status == "discharged" {
					sm.Status = "undecided"
					sm.Witness = o
					sm.Backend = o.Res.Backend + ":" + o.Res.Status
				}
			}
		}
		for _, n := range order {
			results[i].Obs = append(results[i].Obs, by[n])
		}
	}
	return results, nil
}

func cmdRun(fnArg, mod string, verbose bool, keep string, timeout int) int {
	s, err := newSession(keep, timeout)
	if err != nil {
		fmt.Fprintln(os.Stderr, err)
		return 2
	}
	defer s.close()
	p, err := s.prog(mod)
	if err != nil {
		fmt.Fprintln(os.Stderr, "load:", err)
		return 2
	}
	var names []string
	if sweepPrefix != "" {
		for _, n := range sortedKeys(p.Funcs) {
			if !strings.HasPrefix(n, sweepPrefix) || strings.Contains(n, "_test") {
				continue
			}
			fn := p.Funcs[n]
			if len(fn.Blocks) == 0 || fn.Synthetic != "" {
				continue
			}
			if pos := p.SSA.Fset.Position(fn.Pos()); strings.HasSuffix(pos.Filename, "_test.go") {
				continue
			}
			if _, ok := p.CS.ByName[n]; !ok {
				p.CS.ByName[n] = &Contract{Name: n, Invariants: map[int][]Clause{}, MaxPaths: 3000,
					Sweep: map[string]bool{"bounds": true, "panic": true, "make": true, "nilmem": true, "div": true}}
			}
			names = append(names, n)
		}
	} else if fnArg == "" {
		for _, n := range p.CS.Order {
			c := p.CS.ByName[n]
			if !c.Extern && moduleOf(n) == mod {
				names = append(names, n)
			}
		}
	} else {
		names = strings.Split(fnArg, ",")
	}
	t0 := time.Now()
	res, err := s.runUnits(names)
	if err != nil {
		fmt.Fprintln(os.Stderr, err)
		return 2
	}
	rc := 0
	for _, r := range res {
		nd, nf, nu := 0, 0, 0
		for _, o := range r.Obs {
			switch o.Status {
			case "discharged":
				nd++
			case "failed":
				nf++
			default:
				nu++
			}
		}
		fmt.Printf("== %s: paths=%d instances=%d obligations=%d discharged=%d failed=%d undecided=%d exec=%.2fs %s\n",
			r.Name, r.Paths, r.Instances, len(r.Obs), nd, nf, nu, r.ExecSecs, r.Aborted)
		if r.Aborted != "" {
			rc = 1
		}
		for _, o := range r.Obs {
			if o.Status != "discharged" || verbose {
				fmt.Printf("   %-10s %s  [%s, %d inst, %.2fs] %s | %s\n", o.Status, o.Name, o.Backend, o.Instances, o.Secs, o.Pos, o.Src)
			}
			if o.Status != "discharged" {
				rc = 1
				if verbose && o.Witness != nil {
					fmt.Printf("      trace: %s\n", strings.Join(o.Witness.Trace, " ; "))
					if o.Desc != "" {
						fmt.Printf("      desc: %s\n", o.Desc)
					}
					m := parseValues(o.Witness.Res.Output)
					for _, k := range sortedKeys(o.Witness.Inputs) {
						if i := strings.Index(k, "["); i > 0 && len(k)-i > 3 {
							continue // print the first ten elements only
						}
						if v, ok := m[normSpace(o.Witness.Inputs[k])]; ok {
							fmt.Printf("      %s = %s\n", k, v)
						}
					}
				}
			}
		}
		if verbose {
			if len(r.Notes) > 0 {
				fmt.Printf("   notes: %v\n", r.Notes)
			}
			if len(r.Havocked) > 0 {
				fmt.Printf("   havocked callees: %v\n", r.Havocked)
			}
			if len(r.Inlined) > 0 {
				fmt.Printf("   inlined: %v\n", r.Inlined)
			}
			if len(r.UsedCons) > 0 {
				fmt.Printf("   contracts used: %v\n", r.UsedCons)
			}
		}
	}
	fmt.Printf("total %.1fs (load %.1fs)\n", time.Since(t0).Seconds()+s.LoadSecs, s.LoadSecs)
	return rc
}
