package main

// Property checks: map a property to the units (functions under contract)
// that serve it, discharge their obligations, triage failures against the
// known-findings file and the baseline, replay counterexamples, write evidence.

import (
	"encoding/json"
	"go/ast"
	"go/types"

	"golang.org/x/tools/go/ssa"
	"fmt"
	"os"
	"path/filepath"
	"sort"
	"strconv"
	"strings"
	"time"
)

type KnownFinding struct {
	Kind     string `json:"kind"` // "known" | "fixed"
	Property string `json:"property"`
	Fn       string `json:"fn"`
	Class    string `json:"class"`
	Label    string `json:"label,omitempty"`  // ensures/pre label if any
	Match    string `json:"match,omitempty"`  // substring of the source line at the failing site
	What     string `json:"what"`
	Input    string `json:"input,omitempty"`  // the specific failing input / call site / history
	Commit   string `json:"commit,omitempty"` // for fixed
}

type KnownFile struct {
	Findings []KnownFinding `json:"findings"`
}

func loadKnown() KnownFile {
	var k KnownFile
	b, err := os.ReadFile(filepath.Join(verifRoot(), "known_findings.json"))
	if err == nil {
		json.Unmarshal(b, &k)
	}
	return k
}

type Baseline struct {
	Discharged map[string][]string `json:"discharged"` // property -> obligation names
}

func loadBaseline() Baseline { return loadBaselineFile("baseline_obligations.json") }

func loadBaselineFile(name string) Baseline {
	var b Baseline
	data, err := os.ReadFile(filepath.Join(verifRoot(), name))
	if err == nil {
		json.Unmarshal(data, &b)
	}
	if b.Discharged == nil {
		b.Discharged = map[string][]string{}
	}
	return b
}

var sweepClasses = map[string]bool{"index": true, "slice": true, "nil": true, "make": true, "panic": true, "div": true, "typeassert": true, "overflow": true}

// propFilter parses "C10(sweep)" / "C01(ensures,pre)" / "C11".
func propFilter(spec string) (id string, accept func(class string) bool) {
	id = spec
	if i := strings.Index(spec, "("); i > 0 && strings.HasSuffix(spec, ")") {
		id = spec[:i]
		set := map[string]bool{}
		for _, c := range strings.FieldsFunc(spec[i+1:len(spec)-1], func(r rune) bool { return r == '|' || r == ',' }) {
			set[strings.TrimSpace(c)] = true
		}
		return id, func(class string) bool {
			if set[class] {
				return true
			}
			if set["sweep"] && (sweepClasses[class] || class == "pre") {
				// callee preconditions are mostly derived from the callee's own panics
				// (registry accessors, slice arguments): part of crash freedom
				return true
			}
			if set["functional"] && !sweepClasses[class] {
				return true
			}
			return false
		}
	}
	return id, func(string) bool { return true }
}

type propUnit struct {
	name   string
	accept func(string) bool
}

func (s *Session) unitsFor(prop string) ([]propUnit, error) {
	var out []propUnit
	for _, mod := range []string{"", "fsim", "sqlite"} {
		// only load sub-modules when a mirror/contracts file exists for them
		if mod != "" {
			has := false
			for _, d := range []string{filepath.Join(repoRoot(), mod), filepath.Join(verifRoot(), "contracts", mod)} {
				if m, _ := filepath.Glob(filepath.Join(d, "contracts*_verif.go")); len(m) > 0 {
					has = true
				}
			}
			if !has {
				continue
			}
			// cheap pre-scan: does the contract file mention the property?
			mention := false
			for _, d := range []string{filepath.Join(repoRoot(), mod), filepath.Join(verifRoot(), "contracts", mod)} {
				ms, _ := filepath.Glob(filepath.Join(d, "contracts*_verif.go"))
				for _, m := range ms {
					if b, err := os.ReadFile(m); err == nil && strings.Contains(string(b), prop) {
						mention = true
					}
				}
			}
			if !mention {
				continue
			}
		}
		p, err := s.prog(mod)
		if err != nil {
			return nil, err
		}
		for _, n := range p.CS.Order {
			c := p.CS.ByName[n]
			if c.Extern || moduleOf(n) != mod {
				continue
			}
			for _, ps := range c.Props {
				id, acc := propFilter(ps)
				if id == prop {
					out = append(out, propUnit{n, acc})
				}
			}
		}
	}
	return out, nil
}

type replayFile struct {
	Property   string            `json:"property"`
	Obligation string            `json:"obligation"`
	Function   string            `json:"function"`
	Class      string            `json:"class"`
	Pos        string            `json:"pos"`
	Src        string            `json:"src"`
	Desc       string            `json:"desc"`
	Verdict    string            `json:"verdict"`
	Backend    string            `json:"backend"`
	Trace      []string          `json:"path_trace"`
	Model      map[string]string `json:"model_inputs,omitempty"`
	SolverOut  string            `json:"solver_output"`
	QueryFile  string            `json:"query_file,omitempty"`
	Replay     *ReplayResult     `json:"replay,omitempty"`
	Note       string            `json:"note,omitempty"`
}

func matchKnown(k KnownFile, prop string, o *ObSummary) *KnownFinding {
	for i := range k.Findings {
		f := &k.Findings[i]
		// a finding is about the code: it applies to every property the function
		// serves (it is recorded under the property it was found for)
		if f.Kind != "known" || f.Fn != o.Fn || f.Class != o.Class {
			continue
		}
		if f.Label != "" && !strings.HasSuffix(o.Name, "#"+f.Label) {
			continue
		}
		if f.Match != "" && !strings.Contains(o.Src, f.Match) {
			continue
		}
		return f
	}
	return nil
}

func cmdCheck(prop, tier string) int {
	t0 := time.Now()
	seed := 0
	if v := os.Getenv("VERIF_SEED"); v != "" {
		seed, _ = strconv.Atoi(v)
	}
	timeout := 10
	if tier == "thorough" {
		timeout = 60
	}
	s, err := newSession("", timeout)
	if err != nil {
		fmt.Fprintln(os.Stderr, err)
		return 2
	}
	defer s.close()
	if tier == "thorough" {
		s.agree = 2
	}
	outRoot := verifRoot()
	if o := os.Getenv("VERIF_OUT"); o != "" {
		outRoot = o
	}
	evPath := filepath.Join(outRoot, "evidence", prop+".json")
	os.MkdirAll(filepath.Dir(evPath), 0o755)
	os.Remove(evPath)
	replayDir := filepath.Join(outRoot, "replays", prop)
	os.RemoveAll(replayDir)

	fatal := func(msg string) int {
		// the machinery could not run: this is a broken check, not a verdict
		fmt.Fprintf(os.Stderr, "govc: %s\n", msg)
		os.MkdirAll(replayDir, 0o755)
		rp := filepath.Join(replayDir, "machinery.json")
		b, _ := json.MarshalIndent(map[string]string{"property": prop, "error": msg}, "", " ")
		os.WriteFile(rp, b, 0o644)
		fmt.Printf("VIOLATION property=%s replay=%s obligation=<load> %s no-failing-input-found\n", prop, rp, oneLine(msg))
		return 1
	}

	units, err := s.unitsFor(prop)
	if err != nil {
		return fatal("cannot load /repo: " + err.Error())
	}
	if len(units) == 0 {
		return fatal("no unit under contract serves " + prop)
	}
	var names []string
	for _, u := range units {
		names = append(names, u.name)
	}
	// thorough tier of the crash-freedom properties: in addition a zero-annotation
	// safety sweep of every other function of the packages in scope. These extra
	// units carry no claim of their own: an obligation of theirs counts (and can
	// raise a violation) only if the committed thorough baseline has it discharged.
	nClaimed := len(units)
	if tier == "thorough" {
		units = append(units, s.extraSweepUnits(prop, names)...)
		names = names[:0]
		for _, u := range units {
			names = append(names, u.name)
		}
	}
	results, err := s.runUnits(names)
	if err != nil {
		return fatal(err.Error())
	}
	known := loadKnown()
	base := loadBaseline()
	inBase := map[string]bool{}
	for _, n := range base.Discharged[prop] {
		inBase[n] = true
	}
	if tier == "thorough" {
		for _, n := range loadBaselineFile("baseline_thorough.json").Discharged[prop] {
			inBase[n] = true
		}
	}

	type sample struct {
		Obligation string  `json:"obligation"`
		Class      string  `json:"class"`
		Status     string  `json:"status"`
		Backend    string  `json:"backend"`
		Instances  int     `json:"path_instances"`
		SolverS    float64 `json:"solver_s"`
		Pos        string  `json:"pos,omitempty"`
		Desc       string  `json:"desc,omitempty"`
	}
	var samples []sample
	byBackend := map[string]map[string]float64{}
	nObl, nDis := 0, 0
	var violations, knownLines, undecided []string
	var knownObs, undecidedObs []string
	seen := map[string]bool{}
	solverS := 0.0
	var funcs []map[string]interface{}
	assumed := map[string]bool{}
	trustedClauses := map[string]bool{}
	notes := map[string]int{}
	havocked := map[string]int{}
	instances := 0
	os.MkdirAll(replayDir, 0o755)
	replays := 0
	writeReplay := func(o *ObSummary, verdict, note string) (string, *ReplayResult) {
		rf := replayFile{Property: prop, Obligation: o.Name, Function: o.Fn, Class: o.Class, Pos: o.Pos, Src: o.Src, Desc: o.Desc,
			Verdict: verdict, Backend: o.Backend, Note: note}
		var rr *ReplayResult
		if w := o.Witness; w != nil {
			rf.Trace = w.Trace
			rf.SolverOut = w.Res.Output
			m := parseValues(w.Res.Output)
			rf.Model = map[string]string{}
			for _, k := range sortedKeys(w.Inputs) {
				if v, ok := m[normSpace(w.Inputs[k])]; ok {
					rf.Model[k] = v
				}
			}
			if w.QueryFile != "" {
				dst := filepath.Join(replayDir, sanitizeFile(o.Name)+".smt2")
				if b, err := os.ReadFile(w.QueryFile); err == nil {
					os.WriteFile(dst, b, 0o644)
					rf.QueryFile = dst
				}
			}
			if verdict == "sat" && replays < 3 {
				replays++
				rr = tryReplay(s, o, rf.Model, filepath.Join(replayDir, sanitizeFile(o.Name)+"_replay_test.go"))
				rf.Replay = rr
			}
		}
		rp := filepath.Join(replayDir, sanitizeFile(o.Name)+".json")
		b, _ := json.MarshalIndent(rf, "", " ")
		os.WriteFile(rp, b, 0o644)
		return rp, rr
	}
	extraDischarged, extraOpen := 0, 0
	for i, r := range results {
		u := units[i]
		if i >= nClaimed {
			// extra sweep unit (thorough): regression check against the baseline only
			for _, o := range r.Obs {
				if !sweepClasses[o.Class] {
					continue
				}
				if o.Status == "discharged" {
					extraDischarged++
					seen[o.Name] = true
					continue
				}
				extraOpen++
				seen[o.Name] = true
				if inBase[o.Name] && matchKnown(known, prop, o) == nil {
					nObl++
					verdict := "sat"
					if o.Status != "failed" {
						verdict = "undecided:" + o.Backend
					}
					rp, rr := writeReplay(o, verdict, "sweep obligation discharged in the thorough baseline, not discharged now")
					line := fmt.Sprintf("VIOLATION property=%s replay=%s obligation=%s at %s", prop, rp, o.Name, o.Pos)
					if rr == nil || !rr.Confirmed {
						line += " no-failing-input-found"
					}
					violations = append(violations, line)
				}
			}
			continue
		}
		fe := map[string]interface{}{"function": r.Name, "paths": r.Paths, "path_instances": r.Instances}
		if r.Aborted != "" {
			fe["out_of_reach"] = r.Aborted
			o := &ObSummary{Name: r.Name + "#unit", Class: "unit", Fn: r.Name, Desc: r.Aborted}
			if kf := matchKnown(known, prop, o); kf != nil {
				knownLines = append(knownLines, fmt.Sprintf("KNOWN-FINDING: property=%s %s", prop, kf.What))
			} else {
				rp, _ := writeReplay(o, "unit-not-verified", r.Aborted)
				violations = append(violations, fmt.Sprintf("VIOLATION property=%s replay=%s obligation=%s (%s) no-failing-input-found", prop, rp, o.Name, oneLine(r.Aborted)))
			}
		}
		funcs = append(funcs, fe)
		for _, c := range append([]string{r.Name}, r.UsedCons...) {
			con := s.conOf(c)
			if con == nil {
				continue
			}
			if con.Extern {
				assumed[c] = true
				continue
			}
			// unchecked parts of contracts of functions of the module itself
			for _, e := range con.Ensures {
				if e.Trusted {
					trustedClauses[c+": ensures! "+e.Src] = true
				} else if con.NoPaths {
					trustedClauses[c+": ensures (body not executed: nopaths) "+e.Src] = true
				}
			}
			for _, a := range con.Assumes {
				trustedClauses[c+": assume "+a.Src] = true
			}
			for _, t := range con.Trusted {
				trustedClauses[c+": "+t] = true
			}
			if con.NoPaths && con.HasMod && c != r.Name {
				trustedClauses[c+": frame (modifies clause) not checked: nopaths"] = true
			}
		}
		for k, v := range r.Notes {
			notes[k] += v
		}
		for k, v := range r.Havocked {
			havocked[k] += v
		}
		for _, o := range r.Obs {
			if !u.accept(o.Class) && o.Class != "vacuity" {
				continue
			}
			key := o.Name
			if seen[key] {
				continue
			}
			seen[key] = true
			instances += o.Instances
			solverS += o.Secs
			be := o.Backend
			if i := strings.Index(be, ":"); i > 0 {
				be = be[:i]
			}
			if byBackend[be] == nil {
				byBackend[be] = map[string]float64{}
			}
			byBackend[be]["obligations"]++
			byBackend[be]["solver_s"] += o.Secs
			if len(samples) < 12 || o.Status != "discharged" {
				samples = append(samples, sample{o.Name, o.Class, o.Status, o.Backend, o.Instances, round3(o.Secs), o.Pos, o.Desc})
			}
			switch o.Status {
			case "discharged":
				nObl++
				nDis++
			case "failed":
				if kf := matchKnown(known, prop, o); kf != nil {
					knownLines = append(knownLines, fmt.Sprintf("KNOWN-FINDING: property=%s %s [%s at %s]", prop, kf.What, o.Name, o.Pos))
					knownObs = append(knownObs, o.Name)
					continue
				}
				nObl++
				verdict := "sat"
				if o.Class == "vacuity" {
					verdict = "vacuous-precondition"
				}
				rp, rr := writeReplay(o, verdict, "")
				line := fmt.Sprintf("VIOLATION property=%s replay=%s obligation=%s at %s", prop, rp, o.Name, o.Pos)
				if rr == nil || !rr.Confirmed {
					line += " no-failing-input-found"
				}
				violations = append(violations, line)
			default: // undecided
				if kf := matchKnown(known, prop, o); kf != nil {
					knownLines = append(knownLines, fmt.Sprintf("KNOWN-FINDING: property=%s %s [%s at %s]", prop, kf.What, o.Name, o.Pos))
					knownObs = append(knownObs, o.Name)
					continue
				}
				if inBase[o.Name] {
					nObl++
					rp, _ := writeReplay(o, "undecided:"+o.Backend, "discharged in the baseline, not discharged now")
					violations = append(violations, fmt.Sprintf("VIOLATION property=%s replay=%s obligation=%s at %s no-failing-input-found", prop, rp, o.Name, o.Pos))
				} else {
					undecided = append(undecided, fmt.Sprintf("UNDECIDED: property=%s obligation=%s (%s) — not in the baseline, not counted", prop, o.Name, o.Backend))
					undecidedObs = append(undecidedObs, o.Name)
				}
			}
		}
	}
	// baseline obligations that no longer exist (renamed/removed code): report
	var missing []string
	for n := range inBase {
		if !seen[n] {
			missing = append(missing, n)
		}
	}
	sort.Strings(missing)
	// A functional obligation of the baseline that is no longer generated means
	// its anchor (function, call site, loop, named local) is gone: the contract
	// is stale and the property is no longer decided by it. Reported, not
	// silently dropped. Sweep obligations (index, slice, nil, ...) and callee
	// preconditions at call sites legitimately disappear with the code they
	// guard and are only listed in the evidence.
	var staleObs []string
	for _, n := range missing {
		parts := strings.Split(n, "#")
		if len(parts) < 2 {
			continue
		}
		cls := parts[1]
		if i := strings.Index(cls, ":"); i >= 0 {
			cls = cls[:i]
		}
		switch cls {
		case "ensures", "assert", "callsites", "frame", "inv-entry", "inv-preserved", "vacuity":
		default:
			continue
		}
		o := &ObSummary{Name: n, Class: cls, Fn: parts[0], Desc: "obligation of the baseline is no longer generated: its anchor (function, call site, loop or named value) is gone"}
		if kf := matchKnown(known, prop, o); kf != nil {
			continue
		}
		staleObs = append(staleObs, n)
		nObl++
		if len(staleObs) <= 20 {
			rp, _ := writeReplay(o, "stale-anchor", "discharged in the baseline, not generated now")
			violations = append(violations, fmt.Sprintf("VIOLATION property=%s replay=%s obligation=%s (anchor gone) no-failing-input-found", prop, rp, n))
		}
	}

	for _, l := range knownLines {
		fmt.Println(l)
	}
	for _, l := range undecided {
		fmt.Println(l)
	}
	for _, l := range violations {
		fmt.Println(l)
	}
	if nObl == 0 && len(violations) == 0 {
		return fatal("no obligations were generated (vacuous check)")
	}

	// evidence
	var assumedList []string
	for _, c := range sortedKeys(assumed) {
		assumedList = append(assumedList, c)
	}
	trusted := []string{
		"golang.org/x/tools go/packages, go/types, go/ssa v0.50.0: the SSA form is taken as the meaning of the source",
		"govc symbolic semantics (DESIGN.md 1.1): bit-vector integers (int = 64 bit, GOARCH=amd64), per-path object store without aliasing between distinct symbolic inputs, loops cut at headers with written invariants",
		"SMT solvers z3 5.1.0, z3 4.8.12, cvc5 1.0 (raced; thorough tier demands two agreeing answers)",
		"assumed contracts in /verif/spec/assumed/*.spec (dependencies, interfaces, crypto as uninterpreted functions)",
	}
	cov := map[string]interface{}{
		"obligations":              nObl,
		"discharged":               nDis,
		"checker_cmd":              fmt.Sprintf("/verif/check %s %s", prop, tier),
		"trusted_base":             trusted,
		"functions_under_contract": funcs,
		"path_instances":           instances,
		"by_backend":               byBackend,
		"solver_time_s":            round3(solverS),
		"load_time_s":              round3(s.LoadSecs),
		"samples":                  samples,
		"assumed_contracts_used":   assumedList,
		"unchecked_clauses_used":   sortedKeys(trustedClauses),
		"thorough_extra_sweep": map[string]interface{}{"functions": len(units) - nClaimed, "sweep_obligations_discharged": extraDischarged,
			"sweep_obligations_open_not_claimed": extraOpen,
			"note": "thorough tier only: zero-annotation safety sweep of the functions of the packages in scope that are not under contract; not part of the claim, compared with the thorough baseline to catch regressions"},
		"abstractions_hit":         notes,
		"callees_havocked":         havocked,
		"known_finding_obligations": knownObs,
		"undecided_not_counted":    undecidedObs,
		"baseline_obligations_missing": missing,
		"stale_functional_obligations": staleObs,
		"contract_mirror_used":     s.fallbackContracts,
		"explanation":              "obligations = named proof obligations (requires at call sites, ensures, loop invariants, safety sweep, vacuity) of the functions under contract serving this property; each is discharged when every path instance is unsat. Obligations matched by a known finding or never discharged before are listed separately and not counted.",
	}
	ev := map[string]interface{}{
		"property_id": prop,
		"tier":        tier,
		"seed":        seed,
		"level":       "proof",
		"coverage":    cov,
		"assumptions": append(assumptionsFor(prop), assumedList...),
		"wall_s":      round3(time.Since(t0).Seconds()),
		"violations":  len(violations),
	}
	b, _ := json.MarshalIndent(ev, "", " ")
	if err := os.WriteFile(evPath, b, 0o644); err != nil {
		fmt.Fprintln(os.Stderr, err)
		return 2
	}
	fmt.Printf("%s %s: %d obligations, %d discharged, %d known findings, %d undecided, %d violations, %.1fs\n",
		prop, tier, nObl, nDis, len(knownObs), len(undecidedObs), len(violations), time.Since(t0).Seconds())
	if len(violations) > 0 {
		return 1
	}
	return 0
}

func (s *Session) conOf(name string) *Contract {
	for _, p := range s.progs {
		if c, ok := p.CS.ByName[name]; ok {
			return c
		}
	}
	return nil
}

func oneLine(s string) string {
	s = strings.ReplaceAll(s, "\n", " ")
	if len(s) > 200 {
		s = s[:200]
	}
	return s
}

func round3(f float64) float64 { return float64(int(f*1000+0.5)) / 1000 }

func assumptionsFor(prop string) []string {
	common := []string{
		"machine integers are 64-bit two's complement (amd64); no mathematical-integer abstraction is used",
		"distinct pointer/slice inputs of a function do not alias; every object is smaller than 2^62 bytes",
		"package-level sentinel errors and registries are not reassigned after package initialisation",
		"non-error results of calls are not nil-checked unless a contract says so; only pointers loaded from memory are subject to the nil obligation",
		"goroutines, channels, select and sync are outside the subset: such instructions havoc what they touch and no obligation about schedules is generated",
		"termination is not proved",
	}
	b, err := os.ReadFile(filepath.Join(verifRoot(), "spec", "not_decided.json"))
	if err == nil {
		var m map[string][]string
		if json.Unmarshal(b, &m) == nil {
			for _, x := range m[prop] {
				common = append(common, "NOT DECIDED: "+x)
			}
		}
	}
	return common
}

// cmdBaseline recomputes baseline_obligations.json from the current tree.
// cmdBaselineThorough recomputes baseline_thorough.json: the sweep obligations of
// the extra (unclaimed) units of the thorough tier that discharge on the current tree.
func cmdBaselineThorough() int {
	s, err := newSession("", 10)
	if err != nil {
		return 2
	}
	defer s.close()
	base := Baseline{Discharged: map[string][]string{}}
	for _, prop := range []string{"C10", "C12"} {
		units, err := s.unitsFor(prop)
		if err != nil {
			fmt.Fprintln(os.Stderr, err)
			return 2
		}
		var have []string
		for _, u := range units {
			have = append(have, u.name)
		}
		extra := s.extraSweepUnits(prop, have)
		var names []string
		for _, u := range extra {
			names = append(names, u.name)
		}
		results, err := s.runUnits(names)
		if err != nil {
			fmt.Fprintln(os.Stderr, err)
			return 2
		}
		set := map[string]bool{}
		open := 0
		for _, r := range results {
			for _, o := range r.Obs {
				if !sweepClasses[o.Class] {
					continue
				}
				if o.Status == "discharged" {
					set[o.Name] = true
				} else {
					open++
				}
			}
		}
		base.Discharged[prop] = sortedKeys(set)
		fmt.Printf("%s thorough: %d extra functions, %d sweep obligations discharged, %d open (not claimed)\n", prop, len(names), len(set), open)
	}
	b, _ := json.MarshalIndent(base, "", " ")
	os.WriteFile(filepath.Join(verifRoot(), "baseline_thorough.json"), b, 0o644)
	return 0
}

func cmdBaseline() int {
	props := []string{}
	for i := 1; i <= 20; i++ {
		props = append(props, fmt.Sprintf("C%02d", i))
	}
	s, err := newSession("", 10)
	if err != nil {
		return 2
	}
	defer s.close()
	base := Baseline{Discharged: map[string][]string{}}
	for _, prop := range props {
		units, err := s.unitsFor(prop)
		if err != nil {
			fmt.Fprintln(os.Stderr, err)
			return 2
		}
		if len(units) == 0 {
			continue
		}
		var names []string
		for _, u := range units {
			names = append(names, u.name)
		}
		results, err := s.runUnits(names)
		if err != nil {
			fmt.Fprintln(os.Stderr, err)
			return 2
		}
		set := map[string]bool{}
		for i, r := range results {
			for _, o := range r.Obs {
				if (units[i].accept(o.Class) || o.Class == "vacuity") && o.Status == "discharged" {
					set[o.Name] = true
				}
			}
		}
		base.Discharged[prop] = sortedKeys(set)
		fmt.Printf("%s: %d discharged obligations\n", prop, len(set))
	}
	b, _ := json.MarshalIndent(base, "", " ")
	os.WriteFile(filepath.Join(verifRoot(), "baseline_obligations.json"), b, 0o644)
	return 0
}

func cmdSelftest(args []string) int { return runSelftest(args) }

// extraSweepUnits: for the crash-freedom properties (C10: every package of the
// root module; C12: the cbor package) the functions that are not under
// contract, with a default safety-sweep contract.
func (s *Session) extraSweepUnits(prop string, have []string) []propUnit {
	var prefixes []string
	switch prop {
	case "C10":
		prefixes = []string{"fdo.", "cbor.", "cose.", "kex.", "protocol.", "serviceinfo.", "http.", "internal/nistkdf."}
	case "C12":
		prefixes = []string{"cbor."}
	default:
		return nil
	}
	p, err := s.prog("")
	if err != nil {
		return nil
	}
	has := map[string]bool{}
	for _, n := range have {
		has[n] = true
	}
	var out []propUnit
	for _, n := range sortedKeys(p.Funcs) {
		ok := false
		for _, pre := range prefixes {
			if strings.HasPrefix(n, pre) {
				ok = true
			}
		}
		if !ok || has[n] || strings.Contains(n, "_test") || strings.Contains(n, ".init") {
			continue
		}
		fn := p.Funcs[n]
		if len(fn.Blocks) == 0 || fn.Synthetic != "" {
			continue
		}
		if pos := p.SSA.Fset.Position(fn.Pos()); strings.HasSuffix(pos.Filename, "_test.go") {
			continue
		}
		if c, exists := p.CS.ByName[n]; exists {
			if c.Extern || c.NoPaths || c.Inline {
				continue
			}
			if len(c.Sweep) > 0 {
				// under contract with its own sweep, serving other properties: run as is
				out = append(out, propUnit{n, func(c string) bool { return sweepClasses[c] }})
				continue
			}
			continue
		}
		p.CS.ByName[n] = &Contract{Name: n, Invariants: map[int][]Clause{}, MaxPaths: 3000,
			Sweep: map[string]bool{"bounds": true, "panic": true, "make": true, "nilmem": true, "div": true}}
		out = append(out, propUnit{n, func(c string) bool { return sweepClasses[c] }})
	}
	return out
}

// cmdParams prints, for every verified function under contract, its current
// parameter names (receiver first): input of tools/add_params.py.
func cmdParams() int {
	s, err := newSession("", 10)
	if err != nil {
		return 2
	}
	defer s.close()
	for _, mod := range []string{"", "fsim", "sqlite"} {
		p, err := s.prog(mod)
		if err != nil {
			fmt.Fprintln(os.Stderr, err)
			return 2
		}
		for _, n := range p.CS.Order {
			c := p.CS.ByName[n]
			if c.Extern || moduleOf(n) != mod {
				continue
			}
			fn := p.Funcs[n]
			if fn == nil {
				continue
			}
			var ps []string
			for _, prm := range fn.Params {
				nm := prm.Name()
				if nm == "" {
					nm = "_"
				}
				ps = append(ps, nm)
			}
			fmt.Printf("%s\t%s\n", n, strings.Join(ps, " "))
		}
	}
	return 0
}

// cmdLocals prints, for every verified function under contract, the locals its
// clauses mention together with the structural descriptors of the SSA values
// those names stand for in the current tree: input of tools/add_locals.py.
func cmdLocals() int {
	s, err := newSession("", 10)
	if err != nil {
		return 2
	}
	defer s.close()
	word := func(src, name string) bool {
		for i := 0; i+len(name) <= len(src); i++ {
			if src[i:i+len(name)] != name {
				continue
			}
			isId := func(c byte) bool {
				return c == '_' || c >= '0' && c <= '9' || c >= 'a' && c <= 'z' || c >= 'A' && c <= 'Z'
			}
			if (i == 0 || !isId(src[i-1]) && src[i-1] != '.') && (i+len(name) == len(src) || !isId(src[i+len(name)])) {
				return true
			}
		}
		return false
	}
	for _, mod := range []string{"", "fsim", "sqlite"} {
		p, err := s.prog(mod)
		if err != nil {
			fmt.Fprintln(os.Stderr, err)
			return 2
		}
		for _, n := range p.CS.Order {
			c := p.CS.ByName[n]
			fn := p.Funcs[n]
			if c.Extern || moduleOf(n) != mod || fn == nil || len(fn.Blocks) == 0 {
				continue
			}
			var srcs []string
			for _, cl := range c.Requires {
				srcs = append(srcs, cl.Src)
			}
			for _, cl := range c.Ensures {
				srcs = append(srcs, cl.Src)
			}
			for _, cls := range c.Invariants {
				for _, cl := range cls {
					srcs = append(srcs, cl.Src)
				}
			}
			for _, cls := range c.CallAsserts {
				for _, cl := range cls {
					srcs = append(srcs, cl.Src)
				}
			}
			for _, cl := range c.GhostSets {
				srcs = append(srcs, cl.Src)
			}
			srcs = append(srcs, c.Modifies...)
			if len(srcs) == 0 {
				continue
			}
			isParam := map[string]bool{}
			for _, prm := range fn.Params {
				isParam[prm.Name()] = true
			}
			descs := p.valueDescs(fn)
			byName := map[string]map[string]bool{}
			add := func(name string, v ssa.Value, addr bool) {
				if name == "" || name == "_" || isParam[name] {
					return
				}
				d, ok := descs[v]
				if !ok {
					return
				}
				if addr {
					d = "addr:" + d
				}
				if byName[name] == nil {
					byName[name] = map[string]bool{}
				}
				byName[name][d] = true
			}
			for _, b := range fn.Blocks {
				for _, in := range b.Instrs {
					switch x := in.(type) {
					case *ssa.DebugRef:
						if id, ok := x.Expr.(*ast.Ident); ok {
							if _, isPtr := under(x.X.Type()).(*types.Pointer); x.IsAddr && !isPtr {
								continue
							}
							add(id.Name, x.X, x.IsAddr)
						}
					case *ssa.Alloc:
						if x.Comment != "" && !strings.Contains(x.Comment, " ") && !strings.Contains(x.Comment, ".") {
							add(x.Comment, x, true)
						}
					}
				}
			}
			for _, name := range sortedKeys(byName) {
				used := false
				for _, src := range srcs {
					if word(src, name) {
						used = true
					}
				}
				if used {
					fmt.Printf("%s\t%s\t%s\n", n, name, strings.Join(sortedKeys(byName[name]), " | "))
				}
			}
		}
	}
	return 0
}
