package main

func cmdCheck(prop, tier string) int { return 2 }
func cmdSelftest(args []string) int  { return 2 }
func cmdBaseline() int               { return 2 }
