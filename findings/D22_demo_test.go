// Package directory: root of the module (github.com/fido-device-onboard/go-fdo),
// i.e. copy this file to /tmp/fixD/D22_demo_test.go and run
//
//	go test -vet=off -count=1 -run 'TestD22' .
//
// D22: TO2Server.proveOVHdr reads ov.Header.Val.CertChainHash.Algorithm
// without checking that the (optional, `Hash / null` on the wire) hash is
// present. A stored voucher without device certificate chain hash makes the
// owner service panic on TO2.HelloDevice.

package fdo

import (
	"bytes"
	"context"
	"crypto"
	"crypto/ecdsa"
	"crypto/elliptic"
	"crypto/rand"
	"crypto/x509"
	"encoding/pem"
	"os"
	"runtime/debug"
	"testing"

	"github.com/fido-device-onboard/go-fdo/cbor"
	"github.com/fido-device-onboard/go-fdo/cose"
	"github.com/fido-device-onboard/go-fdo/kex"
	"github.com/fido-device-onboard/go-fdo/protocol"
)

func d22ReadPEM(t *testing.T, path string) []byte {
	t.Helper()
	data, err := os.ReadFile(path)
	if err != nil {
		t.Fatal(err)
	}
	blk, _ := pem.Decode(data)
	if blk == nil {
		t.Fatalf("%s: invalid PEM", path)
	}
	return blk.Bytes
}

// Only the session state used before the response is built is implemented.
// Any other method call panics on the nil embedded interface.
type d22Session struct {
	TO2SessionState
	guid protocol.GUID
}

func (s *d22Session) SetGUID(_ context.Context, guid protocol.GUID) error {
	s.guid = guid
	return nil
}
func (s *d22Session) GUID(context.Context) (protocol.GUID, error)               { return s.guid, nil }
func (s *d22Session) SetProveDeviceNonce(context.Context, protocol.Nonce) error { return nil }
func (s *d22Session) SetXSession(context.Context, kex.Suite, kex.Session) error { return nil }
func (s *d22Session) XSession(context.Context) (kex.Suite, kex.Session, error) {
	return "", nil, ErrNotFound
}
func (s *d22Session) ProveDeviceNonce(context.Context) (protocol.Nonce, error) {
	return protocol.Nonce{}, ErrNotFound
}
func (s *d22Session) SetSetupDeviceNonce(context.Context, protocol.Nonce) error { return nil }
func (s *d22Session) SetupDeviceNonce(context.Context) (protocol.Nonce, error) {
	return protocol.Nonce{}, ErrNotFound
}
func (s *d22Session) SetRvInfo(context.Context, [][]protocol.RvInstruction) error { return nil }

type d22OwnerState struct {
	vouchers map[protocol.GUID]*Voucher
	key      crypto.Signer
}

func (s *d22OwnerState) AddVoucher(_ context.Context, ov *Voucher) error {
	s.vouchers[ov.Header.Val.GUID] = ov
	return nil
}
func (s *d22OwnerState) ReplaceVoucher(_ context.Context, guid protocol.GUID, ov *Voucher) error {
	delete(s.vouchers, guid)
	s.vouchers[ov.Header.Val.GUID] = ov
	return nil
}
func (s *d22OwnerState) Voucher(_ context.Context, guid protocol.GUID) (*Voucher, error) {
	ov, ok := s.vouchers[guid]
	if !ok {
		return nil, ErrNotFound
	}
	return ov, nil
}
func (s *d22OwnerState) OwnerKey(context.Context, protocol.KeyType, int) (crypto.Signer, []*x509.Certificate, error) {
	return s.key, nil, nil
}

func TestD22HelloDeviceVoucherWithoutCertChainHash(t *testing.T) {
	// Build a voucher extended to the owner key
	var ov Voucher
	if err := cbor.Unmarshal(d22ReadPEM(t, "testdata/ov.pem"), &ov); err != nil {
		t.Fatalf("error parsing voucher test data: %v", err)
	}
	mfgKey, err := x509.ParseECPrivateKey(d22ReadPEM(t, "testdata/mfg_key.pem"))
	if err != nil {
		t.Fatalf("error parsing manufacturer key: %v", err)
	}
	ownerKey, err := ecdsa.GenerateKey(elliptic.P384(), rand.Reader)
	if err != nil {
		t.Fatal(err)
	}
	// OVDevCertChain and OVDevCertChainHash are both "/ null" in the spec. The
	// hash is removed from the header before extending, so that the entries
	// are valid for the header. The device certificate is only needed by
	// ExtendVoucher to select the hash algorithm.
	ov.Header.Val.CertChainHash = nil
	extended, err := ExtendVoucher(&ov, mfgKey, ownerKey.Public().(*ecdsa.PublicKey), nil)
	if err != nil {
		t.Fatalf("error extending voucher: %v", err)
	}
	extended.CertChain = nil

	// Send the voucher over the wire (as in an import of a voucher file)
	wire, err := cbor.Marshal(extended)
	if err != nil {
		t.Fatalf("error marshaling voucher: %v", err)
	}
	var stored Voucher
	if err := cbor.Unmarshal(wire, &stored); err != nil {
		t.Fatalf("error unmarshaling voucher: %v", err)
	}
	if stored.Header.Val.CertChainHash != nil {
		t.Fatalf("expected nil cert chain hash")
	}
	if err := stored.VerifyCertChainHash(); err != nil {
		t.Fatalf("voucher without cert chain and hash is expected to be accepted by VerifyCertChainHash: %v", err)
	}
	if err := stored.VerifyEntries(); err != nil {
		t.Fatalf("voucher entries are expected to be valid: %v", err)
	}

	state := &d22OwnerState{vouchers: make(map[protocol.GUID]*Voucher), key: ownerKey}
	if err := state.AddVoucher(context.Background(), &stored); err != nil {
		t.Fatal(err)
	}
	server := &TO2Server{
		Session:   &d22Session{},
		Vouchers:  state,
		OwnerKeys: state,
	}

	// TO2.HelloDevice
	var hello bytes.Buffer
	if err := cbor.NewEncoder(&hello).Encode(helloDeviceMsg{
		MaxDeviceMessageSize: 65535,
		GUID:                 stored.Header.Val.GUID,
		KexSuiteName:         kex.ECDH384Suite,
		CipherSuite:          kex.A256GcmCipher,
		SigInfoA:             sigInfo{Type: cose.ES384Alg},
	}); err != nil {
		t.Fatal(err)
	}

	defer func() {
		if r := recover(); r != nil {
			t.Fatalf("TO2Server.Respond(TO2.HelloDevice) panicked: %v\n%s", r, debug.Stack())
		}
	}()
	respType, resp := server.Respond(context.Background(), protocol.TO2HelloDeviceMsgType, &hello)
	switch respType {
	case protocol.ErrorMsgType:
		t.Logf("error response: %v", resp)
	case protocol.TO2ProveOVHdrMsgType:
		proof, ok := resp.(*cose.Sign1Tag[ovhProof, []byte])
		if !ok {
			t.Fatalf("unexpected response %T", resp)
		}
		t.Logf("ProveOVHdr with HelloDeviceHash algorithm %s", proof.Payload.Val.HelloDeviceHash.Algorithm)
	default:
		t.Fatalf("unexpected response type %d", respType)
	}
}
