// Package directory: root of the module (github.com/fido-device-onboard/go-fdo),
// i.e. copy this file to /tmp/fixD/D21_demo_test.go and run
//
//	go test -vet=off -count=1 -run 'TestD21' .
//
// D21: a voucher received from a peer may carry a device certificate chain
// with a null element (CBOR `[null]` decodes to a []*cbor.X509Certificate
// holding a nil pointer). Voucher.DevicePublicKey, Voucher.VerifyCertChainHash,
// Voucher.VerifyDeviceCertChain and ExtendVoucher dereference that nil pointer.
// The rendezvous server stores such a voucher in TO0 and panics in TO1.

package fdo

import (
	"bytes"
	"context"
	"crypto"
	"crypto/ecdsa"
	"crypto/elliptic"
	"crypto/rand"
	"crypto/x509"
	"encoding/pem"
	"fmt"
	"io"
	"os"
	"testing"
	"time"

	"github.com/fido-device-onboard/go-fdo/cbor"
	"github.com/fido-device-onboard/go-fdo/cose"
	"github.com/fido-device-onboard/go-fdo/kex"
	"github.com/fido-device-onboard/go-fdo/protocol"
)

func d21ReadPEM(t *testing.T, path string) []byte {
	t.Helper()
	data, err := os.ReadFile(path)
	if err != nil {
		t.Fatal(err)
	}
	blk, _ := pem.Decode(data)
	if blk == nil {
		t.Fatalf("%s: invalid PEM", path)
	}
	return blk.Bytes
}

// d21Voucher returns the wire encoding of a valid voucher extended to a new
// owner, but whose device certificate chain has been replaced with `[null]`,
// and the owner key. Nothing in the entry signatures covers OVDevCertChain,
// so any owner in the supply chain can produce this.
func d21Voucher(t *testing.T) ([]byte, crypto.Signer) {
	t.Helper()

	var ov Voucher
	if err := cbor.Unmarshal(d21ReadPEM(t, "testdata/ov.pem"), &ov); err != nil {
		t.Fatalf("error parsing voucher test data: %v", err)
	}
	mfgKey, err := x509.ParseECPrivateKey(d21ReadPEM(t, "testdata/mfg_key.pem"))
	if err != nil {
		t.Fatalf("error parsing manufacturer key: %v", err)
	}
	ownerKey, err := ecdsa.GenerateKey(elliptic.P384(), rand.Reader)
	if err != nil {
		t.Fatal(err)
	}
	extended, err := ExtendVoucher(&ov, mfgKey, ownerKey.Public().(*ecdsa.PublicKey), nil)
	if err != nil {
		t.Fatalf("error extending voucher: %v", err)
	}

	extended.CertChain = &[]*cbor.X509Certificate{nil}
	wire, err := cbor.Marshal(extended)
	if err != nil {
		t.Fatalf("error marshaling voucher: %v", err)
	}
	return wire, ownerKey
}

func d21NoPanic(t *testing.T, name string, f func() error) {
	t.Helper()
	defer func() {
		if r := recover(); r != nil {
			t.Errorf("%s panicked: %v", name, r)
		}
	}()
	if err := f(); err == nil {
		t.Errorf("%s: expected an error for a certificate chain containing a null certificate", name)
	} else {
		t.Logf("%s: %v", name, err)
	}
}

// Voucher methods on a voucher decoded from the wire.
func TestD21VoucherMethodsNullCert(t *testing.T) {
	wire, ownerKey := d21Voucher(t)

	var ov Voucher
	if err := cbor.Unmarshal(wire, &ov); err != nil {
		t.Skipf("voucher with null certificate rejected while decoding: %v", err)
	}
	if ov.CertChain == nil || len(*ov.CertChain) != 1 || (*ov.CertChain)[0] != nil {
		t.Fatalf("expected cert chain [nil], got %+v", ov.CertChain)
	}

	d21NoPanic(t, "DevicePublicKey", func() error { _, err := ov.DevicePublicKey(); return err })
	d21NoPanic(t, "VerifyCertChainHash", ov.VerifyCertChainHash)
	d21NoPanic(t, "VerifyDeviceCertChain(nil)", func() error { return ov.VerifyDeviceCertChain(nil) })
	d21NoPanic(t, "VerifyDeviceCertChain(roots)", func() error { return ov.VerifyDeviceCertChain(x509.NewCertPool()) })
	d21NoPanic(t, "ExtendVoucher", func() error {
		nextKey, err := ecdsa.GenerateKey(elliptic.P384(), rand.Reader)
		if err != nil {
			t.Fatal(err)
		}
		_, err = ExtendVoucher(&ov, ownerKey, nextKey.Public().(*ecdsa.PublicKey), nil)
		return err
	})
}

// Rendezvous server state kept in memory.
type d21RVState struct {
	to0Nonce, to1Nonce protocol.Nonce
	blobs              map[protocol.GUID]*cose.Sign1[protocol.To1d, []byte]
	vouchers           map[protocol.GUID]*Voucher
}

func (s *d21RVState) SetTO0SignNonce(_ context.Context, n protocol.Nonce) error {
	s.to0Nonce = n
	return nil
}
func (s *d21RVState) TO0SignNonce(context.Context) (protocol.Nonce, error) { return s.to0Nonce, nil }
func (s *d21RVState) SetTO1ProofNonce(_ context.Context, n protocol.Nonce) error {
	s.to1Nonce = n
	return nil
}
func (s *d21RVState) TO1ProofNonce(context.Context) (protocol.Nonce, error) { return s.to1Nonce, nil }
func (s *d21RVState) SetRVBlob(_ context.Context, ov *Voucher, to1d *cose.Sign1[protocol.To1d, []byte], _ time.Time) error {
	s.blobs[ov.Header.Val.GUID] = to1d
	s.vouchers[ov.Header.Val.GUID] = ov
	return nil
}
func (s *d21RVState) RVBlob(_ context.Context, guid protocol.GUID) (*cose.Sign1[protocol.To1d, []byte], *Voucher, error) {
	ov, ok := s.vouchers[guid]
	if !ok {
		return nil, nil, ErrNotFound
	}
	return s.blobs[guid], ov, nil
}

// Owner service state (the malicious/buggy peer of the rendezvous server).
type d21OwnerState struct {
	ov  *Voucher
	key crypto.Signer
}

func (s *d21OwnerState) AddVoucher(context.Context, *Voucher) error { return nil }
func (s *d21OwnerState) Voucher(context.Context, protocol.GUID) (*Voucher, error) {
	return s.ov, nil
}
func (s *d21OwnerState) OwnerKey(context.Context, protocol.KeyType, int) (crypto.Signer, []*x509.Certificate, error) {
	return s.key, nil, nil
}

// d21Loopback is a Transport which CBOR encodes each message and hands it to a
// server's Respond method, like the HTTP transport does.
type d21Loopback struct {
	srv interface {
		Respond(ctx context.Context, msgType uint8, msg io.Reader) (respType uint8, resp any)
	}
}

func (l d21Loopback) Send(ctx context.Context, msgType uint8, msg any, _ kex.Session) (uint8, io.ReadCloser, error) {
	var req bytes.Buffer
	if err := cbor.NewEncoder(&req).Encode(msg); err != nil {
		return 0, nil, fmt.Errorf("error encoding request: %w", err)
	}
	respType, resp := l.srv.Respond(ctx, msgType, &req)
	var body bytes.Buffer
	if err := cbor.NewEncoder(&body).Encode(resp); err != nil {
		return 0, nil, fmt.Errorf("error encoding response: %w", err)
	}
	return respType, io.NopCloser(&body), nil
}

// An owner registers a voucher whose OVDevCertChain is `[null]` with the
// rendezvous server (TO0), then anyone runs TO1 for that GUID.
func TestD21RendezvousNullCert(t *testing.T) {
	wire, ownerKey := d21Voucher(t)
	var ov Voucher
	if err := cbor.Unmarshal(wire, &ov); err != nil {
		t.Skipf("voucher with null certificate rejected while decoding: %v", err)
	}
	guid := ov.Header.Val.GUID

	rv := &d21RVState{
		blobs:    make(map[protocol.GUID]*cose.Sign1[protocol.To1d, []byte]),
		vouchers: make(map[protocol.GUID]*Voucher),
	}
	owner := &d21OwnerState{ov: &ov, key: ownerKey}

	// TO0: the rendezvous server decodes the voucher from the OwnerSign message
	to0 := &TO0Client{Vouchers: owner, OwnerKeys: owner}
	_, err := to0.RegisterBlob(context.Background(), d21Loopback{&TO0Server{Session: rv, RVBlobs: rv}}, guid, nil)
	if err != nil {
		t.Logf("TO0 rejected the voucher: %v", err)
		return
	}
	if stored := rv.vouchers[guid]; stored == nil || stored.CertChain == nil || len(*stored.CertChain) != 1 || (*stored.CertChain)[0] != nil {
		t.Fatalf("expected rendezvous server to have stored a voucher with cert chain [nil]")
	}

	// TO1: the key does not matter, the server fails before verifying the EAT
	deviceKey, err := ecdsa.GenerateKey(elliptic.P384(), rand.Reader)
	if err != nil {
		t.Fatal(err)
	}
	d21NoPanic(t, "TO1", func() error {
		_, err := TO1(context.Background(), d21Loopback{&TO1Server{Session: rv, RVBlobs: rv}}, DeviceCredential{GUID: guid}, deviceKey, nil)
		return err
	})
}
