package cbor

import (
	"bytes"
	"math"
	"testing"
)

// TestD2MinInt64RoundTrip checks that the most negative int64, which the
// encoder emits as 3b 7fffffffffffffff, can be decoded again.
func TestD2MinInt64RoundTrip(t *testing.T) {
	data, err := Marshal(int64(math.MinInt64))
	if err != nil {
		t.Fatal(err)
	}
	if want := []byte{0x3b, 0x7f, 0xff, 0xff, 0xff, 0xff, 0xff, 0xff, 0xff}; !bytes.Equal(data, want) {
		t.Fatalf("unexpected encoding % x", data)
	}

	var i64 int64
	if err := Unmarshal(data, &i64); err != nil {
		t.Errorf("int64: %v", err)
	} else if i64 != math.MinInt64 {
		t.Errorf("int64: got %d", i64)
	}

	var v any
	if err := Unmarshal(data, &v); err != nil {
		t.Errorf("any: %v", err)
	} else if v != int64(math.MinInt64) {
		t.Errorf("any: got %#v", v)
	}

	if math.MinInt == math.MinInt64 {
		var i int
		if err := Unmarshal(data, &i); err != nil {
			t.Errorf("int: %v", err)
		} else if i != math.MinInt {
			t.Errorf("int: got %d", i)
		}
	}
}

// TestD2NegativeBounds checks that decoding a negative integer accepts exactly
// the values which fit the target kind.
func TestD2NegativeBounds(t *testing.T) {
	head := func(u64 uint64) []byte {
		return []byte{0x3b, byte(u64 >> 56), byte(u64 >> 48), byte(u64 >> 40), byte(u64 >> 32),
			byte(u64 >> 24), byte(u64 >> 16), byte(u64 >> 8), byte(u64)}
	}

	t.Run("int8", func(t *testing.T) {
		var v int8
		if err := Unmarshal(head(math.MaxInt8), &v); err != nil || v != math.MinInt8 {
			t.Errorf("min: got %d, %v", v, err)
		}
		if err := Unmarshal(head(math.MaxInt8+1), &v); err == nil {
			t.Errorf("min-1: expected error, got %d", v)
		}
	})
	t.Run("int16", func(t *testing.T) {
		var v int16
		if err := Unmarshal(head(math.MaxInt16), &v); err != nil || v != math.MinInt16 {
			t.Errorf("min: got %d, %v", v, err)
		}
		if err := Unmarshal(head(math.MaxInt16+1), &v); err == nil {
			t.Errorf("min-1: expected error, got %d", v)
		}
	})
	t.Run("int32", func(t *testing.T) {
		var v int32
		if err := Unmarshal(head(math.MaxInt32), &v); err != nil || v != math.MinInt32 {
			t.Errorf("min: got %d, %v", v, err)
		}
		if err := Unmarshal(head(math.MaxInt32+1), &v); err == nil {
			t.Errorf("min-1: expected error, got %d", v)
		}
	})
	t.Run("int64", func(t *testing.T) {
		var v int64
		if err := Unmarshal(head(math.MaxInt64-1), &v); err != nil || v != math.MinInt64+1 {
			t.Errorf("min+1: got %d, %v", v, err)
		}
		if err := Unmarshal(head(math.MaxInt64), &v); err != nil || v != math.MinInt64 {
			t.Errorf("min: got %d, %v", v, err)
		}
		if err := Unmarshal(head(math.MaxInt64+1), &v); err == nil {
			t.Errorf("min-1: expected error, got %d", v)
		}
		if err := Unmarshal(head(math.MaxUint64), &v); err == nil {
			t.Errorf("-2^64: expected error, got %d", v)
		}
	})
	t.Run("int", func(t *testing.T) {
		var v int
		if err := Unmarshal(head(math.MaxInt), &v); err != nil || v != math.MinInt {
			t.Errorf("min: got %d, %v", v, err)
		}
		if err := Unmarshal(head(math.MaxInt+1), &v); err == nil {
			t.Errorf("min-1: expected error, got %d", v)
		}
	})
}
