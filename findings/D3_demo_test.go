package cbor

import (
	"fmt"
	"testing"
)

// A byte string head declaring a length of math.MaxInt64 with no data.
var d3HugeBstr = []byte{0x5b, 0x7f, 0xff, 0xff, 0xff, 0xff, 0xff, 0xff, 0xff}

func d3Unmarshal(data []byte, v any) (err error) {
	defer func() {
		if r := recover(); r != nil {
			err = fmt.Errorf("PANIC: %v", r)
		}
	}()
	return Unmarshal(data, v)
}

func d3Check(t *testing.T, err error) {
	t.Helper()
	if err == nil {
		t.Fatal("expected an error")
	}
	if len(err.Error()) >= 6 && err.Error()[:6] == "PANIC:" {
		t.Fatal(err)
	}
	t.Logf("got error: %v", err)
}

func TestD3X509CertificateHugeLength(t *testing.T) {
	var cert X509Certificate
	d3Check(t, d3Unmarshal(d3HugeBstr, &cert))
}

func TestD3X509CertificateRequestHugeLength(t *testing.T) {
	var csr X509CertificateRequest
	d3Check(t, d3Unmarshal(d3HugeBstr, &csr))
}

func TestD3ByteWrapHugeLength(t *testing.T) {
	var bw ByteWrap[[]byte]
	d3Check(t, d3Unmarshal(d3HugeBstr, &bw))
}

// Lengths at the decoder limit must be refused before allocating, the same as
// for a plain []byte.
func TestD3LimitMatchesByteSlice(t *testing.T) {
	// 5a 000186a0 = byte string of length 100_000 (MaxArrayDecodeLength)
	data := append([]byte{0x5a, 0x00, 0x01, 0x86, 0xa0}, make([]byte, MaxArrayDecodeLength)...)

	var bs []byte
	if err := d3Unmarshal(data, &bs); err == nil {
		t.Fatal("[]byte: expected an error")
	}
	var bw ByteWrap[[]byte]
	if err := d3Unmarshal(data, &bw); err == nil {
		t.Error("ByteWrap[[]byte]: expected an error")
	}
	var cert X509Certificate
	if err := d3Unmarshal(data[:5], &cert); err == nil || err.Error() == "unexpected EOF" || err.Error() == "EOF" {
		t.Errorf("X509Certificate: expected a length error, got %v", err)
	}
	var csr X509CertificateRequest
	if err := d3Unmarshal(data[:5], &csr); err == nil || err.Error() == "unexpected EOF" || err.Error() == "EOF" {
		t.Errorf("X509CertificateRequest: expected a length error, got %v", err)
	}

	// Just below the limit still decodes
	data = append([]byte{0x5a, 0x00, 0x01, 0x86, 0x9f}, make([]byte, MaxArrayDecodeLength-1)...)
	if err := d3Unmarshal(data, &bw); err != nil {
		t.Errorf("ByteWrap[[]byte] below limit: %v", err)
	} else if len(bw.Val) != MaxArrayDecodeLength-1 {
		t.Errorf("ByteWrap[[]byte] below limit: got length %d", len(bw.Val))
	}
}
