package kex

import (
	"bytes"
	"crypto/rand"
	"fmt"
	"testing"

	"github.com/fido-device-onboard/go-fdo/cbor"
	"github.com/fido-device-onboard/go-fdo/cose"
)

func d6Crypter(t *testing.T, id CipherSuiteID) SessionCrypter {
	t.Helper()
	suite := id.Suite()
	s := SessionCrypter{
		ID:     id,
		Cipher: suite,
		SEK:    make([]byte, suite.EncryptAlg.KeySize()),
	}
	if suite.MacAlg != 0 {
		s.SVK = make([]byte, suite.MacAlg.KeySize())
	}
	if _, err := rand.Read(s.SEK); err != nil {
		t.Fatal(err)
	}
	if _, err := rand.Read(s.SVK); err != nil {
		t.Fatal(err)
	}
	return s
}

func d6Decrypt(s SessionCrypter, data []byte) (pt []byte, err error) {
	defer func() {
		if r := recover(); r != nil {
			err = fmt.Errorf("PANIC: %v", r)
		}
	}()
	return s.Decrypt(rand.Reader, bytes.NewReader(data))
}

// Under an encrypt-then-MAC suite, a bare COSE_Encrypt0 (the COSE_Mac0 wrapper
// stripped by an attacker and the ciphertext modified) must not be accepted.
func TestD6StrippedMacRejected(t *testing.T) {
	for _, id := range []CipherSuiteID{CoseAes128CtrCipher, CoseAes256CtrCipher, CoseAes128CbcCipher, CoseAes256CbcCipher} {
		t.Run(id.String(), func(t *testing.T) {
			s := d6Crypter(t, id)

			msg := []byte("attack at dawn")
			expect, err := cbor.Marshal(msg)
			if err != nil {
				t.Fatal(err)
			}
			encrypted, err := s.Encrypt(rand.Reader, msg)
			if err != nil {
				t.Fatal(err)
			}
			data, err := cbor.Marshal(encrypted)
			if err != nil {
				t.Fatal(err)
			}

			// The message as sent has tag 17 and decrypts
			var tag cbor.Tag[cbor.RawBytes]
			if err := cbor.Unmarshal(data, &tag); err != nil {
				t.Fatal(err)
			}
			if tag.Num != cose.Mac0TagNum {
				t.Fatalf("expected Encrypt to produce a COSE_Mac0, got tag %d", tag.Num)
			}
			if got, err := d6Decrypt(s, data); err != nil || !bytes.Equal(got, expect) {
				t.Fatalf("untampered message: %x, %v", got, err)
			}

			// Attacker: no knowledge of keys; unwrap the inner COSE_Encrypt0
			var mac0 cose.Mac0[cose.Encrypt0[cbor.RawBytes, []byte], []byte]
			if err := cbor.Unmarshal([]byte(tag.Val), &mac0); err != nil {
				t.Fatal(err)
			}
			enc0 := mac0.Payload.Val

			// Unmodified inner object without its MAC
			bare, err := cbor.Marshal(enc0.Tag())
			if err != nil {
				t.Fatal(err)
			}
			if got, err := d6Decrypt(s, bare); err == nil {
				t.Errorf("bare COSE_Encrypt0 was accepted without a MAC: %x", got)
			}

			// Flip a bit so that the first character of the message changes
			switch id {
			case CoseAes128CtrCipher, CoseAes256CtrCipher:
				(*enc0.Ciphertext)[1] ^= 0x01
			default: // CBC: first block is XORed with the IV
				var iv []byte
				if ok, err := enc0.Unprotected.Parse(cose.IvLabel, &iv); err != nil || !ok {
					t.Fatalf("no IV: %v", err)
				}
				iv[1] ^= 0x01
				enc0.Unprotected[cose.IvLabel] = iv
			}
			forged, err := cbor.Marshal(enc0.Tag())
			if err != nil {
				t.Fatal(err)
			}
			got, err := d6Decrypt(s, forged)
			if err == nil {
				var altered []byte
				_ = cbor.Unmarshal(got, &altered)
				t.Errorf("forged COSE_Encrypt0 was accepted: plaintext %q", altered)
			} else {
				t.Logf("forged message rejected: %v", err)
			}

			// A modified message inside the COSE_Mac0 is still rejected
			mac0.Payload.Val = enc0
			wrapped, err := cbor.Marshal(mac0.Tag())
			if err != nil {
				t.Fatal(err)
			}
			if got, err := d6Decrypt(s, wrapped); err == nil {
				t.Errorf("modified COSE_Mac0 payload was accepted: %x", got)
			}
		})
	}
}

// Under an AEAD suite, only a COSE_Encrypt0 is expected. A COSE_Mac0 must be
// an error (there is no MAC algorithm or key to verify it with).
func TestD6AEADRejectsMac0(t *testing.T) {
	for _, id := range []CipherSuiteID{A128GcmCipher, A256GcmCipher} {
		t.Run(id.String(), func(t *testing.T) {
			s := d6Crypter(t, id)

			msg := []byte("attack at dawn")
			expect, err := cbor.Marshal(msg)
			if err != nil {
				t.Fatal(err)
			}
			encrypted, err := s.Encrypt(rand.Reader, msg)
			if err != nil {
				t.Fatal(err)
			}
			data, err := cbor.Marshal(encrypted)
			if err != nil {
				t.Fatal(err)
			}
			var tag cbor.Tag[cose.Encrypt0[cbor.RawBytes, []byte]]
			if err := cbor.Unmarshal(data, &tag); err != nil {
				t.Fatal(err)
			}
			if tag.Num != cose.Encrypt0TagNum {
				t.Fatalf("expected Encrypt to produce a COSE_Encrypt0, got tag %d", tag.Num)
			}
			if got, err := d6Decrypt(s, data); err != nil || !bytes.Equal(got, expect) {
				t.Fatalf("untampered message: %x, %v", got, err)
			}

			mac0 := cose.Mac0[cose.Encrypt0[cbor.RawBytes, []byte], []byte]{
				Header:  cose.Header{Protected: cose.HeaderMap{cose.AlgLabel: cose.HMac256}},
				Payload: cbor.NewByteWrap(tag.Val),
				Value:   make([]byte, 32),
			}
			wrapped, err := cbor.Marshal(mac0.Tag())
			if err != nil {
				t.Fatal(err)
			}
			got, err := d6Decrypt(s, wrapped)
			if err == nil {
				t.Errorf("COSE_Mac0 accepted under an AEAD suite: %x", got)
			} else if len(err.Error()) >= 6 && err.Error()[:6] == "PANIC:" {
				t.Error(err)
			}
		})
	}
}
