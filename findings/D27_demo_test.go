// Demonstration for finding D27 (C10, C08): an FDO error message (type 255) whose
// PrevMsgType names a protocol the server does not serve makes the HTTP handler
// call HandleError on a nil Responder.
//
// A Handler may be configured with any subset of the four responders (the
// rendezvous server of examples/wasm sets only TO0Responder and TO1Responder;
// ServeHTTP answers "unsupported message type" for the others). handleError,
// however, dispatches on the *peer-chosen* PrevMsgType field of the body without
// a nil test: any unauthenticated POST to /fdo/101/msg/255 with PrevMsgType = 10
// (DI) or 60 (TO2) panics in ServeHTTP, and the token that came with the request
// is not invalidated.
//
// Copy into /repo/http (package http_test) and run:
//
//	go test -vet=off -count=1 -run TestD27ErrorMessageForUnconfiguredProtocol ./http/
package http_test

import (
	"bytes"
	"context"
	"net/http"
	"net/http/httptest"
	"testing"

	"github.com/fido-device-onboard/go-fdo"
	"github.com/fido-device-onboard/go-fdo/cbor"
	fdo_http "github.com/fido-device-onboard/go-fdo/http"
	"github.com/fido-device-onboard/go-fdo/protocol"
)

type d27Tokens struct{ invalidated int }

func (*d27Tokens) NewToken(context.Context, protocol.Protocol) (string, error) { return "t", nil }
func (*d27Tokens) TokenContext(ctx context.Context, _ string) context.Context { return ctx }
func (*d27Tokens) TokenFromContext(context.Context) (string, bool)            { return "t", true }
func (t *d27Tokens) InvalidateToken(context.Context) error                    { t.invalidated++; return nil }

func TestD27ErrorMessageForUnconfiguredProtocol(t *testing.T) {
	for _, prev := range []uint8{10, 20, 30, 60} {
		tokens := &d27Tokens{}
		// a rendezvous server: TO0 and TO1 only
		h := &fdo_http.Handler{
			Tokens:       tokens,
			TO0Responder: &fdo.TO0Server{},
			TO1Responder: &fdo.TO1Server{},
		}
		body, err := cbor.Marshal(protocol.ErrorMessage{Code: 100, PrevMsgType: prev, ErrString: "x"})
		if err != nil {
			t.Fatal(err)
		}
		req := httptest.NewRequest(http.MethodPost, "/fdo/101/msg/255", bytes.NewReader(body))
		req.Header.Set("Authorization", "Bearer t")
		func() {
			defer func() {
				if r := recover(); r != nil {
					t.Errorf("PrevMsgType %d: ServeHTTP panicked: %v", prev, r)
				}
			}()
			h.ServeHTTP(httptest.NewRecorder(), req)
		}()
		if tokens.invalidated != 1 {
			t.Errorf("PrevMsgType %d: token invalidated %d times, want 1", prev, tokens.invalidated)
		}
	}
}
