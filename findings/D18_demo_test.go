// SPDX-FileCopyrightText: (C) 2024 Intel Corporation
// SPDX-License-Identifier: Apache 2.0

package sqlite

import (
	"context"
	"encoding/base64"
	"errors"
	"path/filepath"
	"testing"

	"github.com/fido-device-onboard/go-fdo"
	"github.com/fido-device-onboard/go-fdo/protocol"
)

// TestD18ShortToken checks that a bearer token which decodes to fewer bytes
// than the size of a session ID is treated as an invalid token rather than
// causing a slice bounds panic.
func TestD18ShortToken(t *testing.T) {
	db, err := Open(filepath.Join(t.TempDir(), "d18.db"), "test_password")
	if err != nil {
		t.Fatal(err)
	}
	defer func() { _ = db.Close() }()

	// A valid token is accepted
	validToken, err := db.NewToken(context.Background(), protocol.TO2Protocol)
	if err != nil {
		t.Fatal(err)
	}
	if _, ok := db.sessionID(db.TokenContext(context.Background(), validToken)); !ok {
		t.Fatal("expected valid token to be accepted")
	}

	for _, token := range []string{
		"",     // 0 bytes
		"AAAA", // 3 bytes
		base64.RawURLEncoding.EncodeToString(make([]byte, sessionIDSize-1)),
		base64.RawURLEncoding.EncodeToString(make([]byte, sessionIDSize)), // no MAC
	} {
		t.Run("token="+token, func(t *testing.T) {
			defer func() {
				if r := recover(); r != nil {
					t.Fatalf("panicked: %v", r)
				}
			}()
			ctx := db.TokenContext(context.Background(), token)

			if _, ok := db.sessionID(ctx); ok {
				t.Error("sessionID: expected token to be invalid")
			}
			if err := db.InvalidateToken(ctx); !errors.Is(err, fdo.ErrNotFound) {
				t.Errorf("InvalidateToken: expected ErrNotFound, got %v", err)
			}
			if _, err := db.GUID(ctx); !errors.Is(err, fdo.ErrInvalidSession) {
				t.Errorf("GUID: expected ErrInvalidSession, got %v", err)
			}
		})
	}
}
