// Package directory: root of the module (github.com/fido-device-onboard/go-fdo),
// i.e. copy this file to /tmp/fixE/D25_demo_test.go and run
//
//	go test -vet=off -count=1 -run 'TestD25' .
//
// D25: the payload of a COSE_Sign1 voucher entry may be null on the wire, in
// which case a voucher decodes without error and the entry's Payload is nil.
// Voucher.OwnerPublicKey reads v.Entries[last].Payload.Val without a check. It
// is called on a stored voucher by TO2Server.proveOVHdr (TO2.HelloDevice)
// before anything in the voucher is verified and by ExtendVoucher. The same
// unchecked access is in TO2Server.Resell and in TO0Client.RegisterBlob
// (entry 0). Vouchers are received from the previous owner/manufacturer.

package fdo

import (
	"bytes"
	"context"
	"crypto"
	"crypto/ecdsa"
	"crypto/elliptic"
	"crypto/rand"
	"crypto/x509"
	"encoding/pem"
	"fmt"
	"io"
	"os"
	"runtime/debug"
	"testing"

	"github.com/fido-device-onboard/go-fdo/cbor"
	"github.com/fido-device-onboard/go-fdo/cose"
	"github.com/fido-device-onboard/go-fdo/kex"
	"github.com/fido-device-onboard/go-fdo/protocol"
)

func d25ReadPEM(t *testing.T, path string) []byte {
	t.Helper()
	data, err := os.ReadFile(path)
	if err != nil {
		t.Fatal(err)
	}
	blk, _ := pem.Decode(data)
	if blk == nil {
		t.Fatalf("%s: invalid PEM", path)
	}
	return blk.Bytes
}

// d25Voucher returns a voucher, as decoded from the wire, with the given
// number of entries (extended from the manufacturer to the returned owner key
// and then to other keys), where the payload of entry `null` is null.
func d25Voucher(t *testing.T, entries, null int) (*Voucher, crypto.Signer) {
	t.Helper()

	ov := new(Voucher)
	if err := cbor.Unmarshal(d25ReadPEM(t, "testdata/ov.pem"), ov); err != nil {
		t.Fatalf("error parsing voucher test data: %v", err)
	}
	mfgKey, err := x509.ParseECPrivateKey(d25ReadPEM(t, "testdata/mfg_key.pem"))
	if err != nil {
		t.Fatalf("error parsing manufacturer key: %v", err)
	}
	var ownerKey *ecdsa.PrivateKey
	for i, key := 0, mfgKey; i < entries; i++ {
		nextKey, err := ecdsa.GenerateKey(elliptic.P384(), rand.Reader)
		if err != nil {
			t.Fatal(err)
		}
		if ov, err = ExtendVoucher(ov, key, nextKey.Public().(*ecdsa.PublicKey), nil); err != nil {
			t.Fatalf("error extending voucher: %v", err)
		}
		if ownerKey == nil {
			ownerKey = nextKey
		}
		key = nextKey
	}

	ov.Entries[null].Payload = nil
	wire, err := cbor.Marshal(ov)
	if err != nil {
		t.Fatalf("error marshaling voucher: %v", err)
	}
	var decoded Voucher
	if err := cbor.Unmarshal(wire, &decoded); err != nil {
		t.Skipf("voucher with a null entry payload rejected while decoding: %v", err)
	}
	if len(decoded.Entries) != entries || decoded.Entries[null].Payload != nil {
		t.Fatalf("expected %d entries and payload %d to be nil", entries, null)
	}
	return &decoded, ownerKey
}

func d25NoPanic(t *testing.T, name string, f func() error) {
	t.Helper()
	defer func() {
		if r := recover(); r != nil {
			t.Errorf("%s panicked: %v\n%s", name, r, debug.Stack())
		}
	}()
	if err := f(); err == nil {
		t.Errorf("%s: expected an error for a voucher with a null entry payload", name)
	} else {
		t.Logf("%s: %v", name, err)
	}
}

// Exported Voucher API.
func TestD25VoucherNullEntryPayload(t *testing.T) {
	for _, test := range []struct{ entries, null int }{{1, 0}, {2, 1}, {2, 0}} {
		t.Run(fmt.Sprintf("payload %d of %d", test.null, test.entries), func(t *testing.T) {
			ov, ownerKey := d25Voucher(t, test.entries, test.null)
			nextKey, err := ecdsa.GenerateKey(elliptic.P384(), rand.Reader)
			if err != nil {
				t.Fatal(err)
			}

			d25NoPanic(t, "VerifyEntries", ov.VerifyEntries)
			if test.null != test.entries-1 {
				return // last entry is intact
			}
			d25NoPanic(t, "OwnerPublicKey", func() error { _, err := ov.OwnerPublicKey(); return err })
			d25NoPanic(t, "ExtendVoucher", func() error {
				_, err := ExtendVoucher(ov, ownerKey, nextKey.Public().(*ecdsa.PublicKey), nil)
				return err
			})
		})
	}
}

// Only the session state used before the response is built is implemented.
// Any other method call panics on the nil embedded interface.
type d25Session struct {
	TO2SessionState
	TO0SessionState
	guid  protocol.GUID
	nonce protocol.Nonce
}

func (s *d25Session) SetGUID(_ context.Context, guid protocol.GUID) error {
	s.guid = guid
	return nil
}
func (s *d25Session) GUID(context.Context) (protocol.GUID, error) { return s.guid, nil }
func (s *d25Session) SetTO0SignNonce(_ context.Context, nonce protocol.Nonce) error {
	s.nonce = nonce
	return nil
}
func (s *d25Session) TO0SignNonce(context.Context) (protocol.Nonce, error) { return s.nonce, nil }

type d25OwnerState struct {
	vouchers map[protocol.GUID]*Voucher
	key      crypto.Signer
}

func (s *d25OwnerState) AddVoucher(_ context.Context, ov *Voucher) error {
	s.vouchers[ov.Header.Val.GUID] = ov
	return nil
}
func (s *d25OwnerState) ReplaceVoucher(_ context.Context, guid protocol.GUID, ov *Voucher) error {
	delete(s.vouchers, guid)
	s.vouchers[ov.Header.Val.GUID] = ov
	return nil
}
func (s *d25OwnerState) RemoveVoucher(_ context.Context, guid protocol.GUID) (*Voucher, error) {
	ov, ok := s.vouchers[guid]
	if !ok {
		return nil, ErrNotFound
	}
	delete(s.vouchers, guid)
	return ov, nil
}
func (s *d25OwnerState) Voucher(_ context.Context, guid protocol.GUID) (*Voucher, error) {
	ov, ok := s.vouchers[guid]
	if !ok {
		return nil, ErrNotFound
	}
	return ov, nil
}
func (s *d25OwnerState) OwnerKey(context.Context, protocol.KeyType, int) (crypto.Signer, []*x509.Certificate, error) {
	return s.key, nil, nil
}

// Anyone who knows the GUID can send TO2.HelloDevice to an owner service which
// has stored (e.g. imported) such a voucher.
func TestD25HelloDeviceNullEntryPayload(t *testing.T) {
	ov, ownerKey := d25Voucher(t, 2, 1)
	state := &d25OwnerState{vouchers: map[protocol.GUID]*Voucher{ov.Header.Val.GUID: ov}, key: ownerKey}
	server := &TO2Server{
		Session:   &d25Session{},
		Vouchers:  state,
		OwnerKeys: state,
	}

	var hello bytes.Buffer
	if err := cbor.NewEncoder(&hello).Encode(helloDeviceMsg{
		MaxDeviceMessageSize: 65535,
		GUID:                 ov.Header.Val.GUID,
		KexSuiteName:         kex.ECDH384Suite,
		CipherSuite:          kex.A256GcmCipher,
		SigInfoA:             sigInfo{Type: cose.ES384Alg},
	}); err != nil {
		t.Fatal(err)
	}

	defer func() {
		if r := recover(); r != nil {
			t.Fatalf("TO2Server.Respond(TO2.HelloDevice) panicked: %v\n%s", r, debug.Stack())
		}
	}()
	respType, resp := server.Respond(context.Background(), protocol.TO2HelloDeviceMsgType, &hello)
	if respType != protocol.ErrorMsgType {
		t.Fatalf("expected an error response, got message type %d", respType)
	}
	t.Logf("error response: %v", resp)
}

// Resale of such a voucher.
func TestD25ResellNullEntryPayload(t *testing.T) {
	ov, ownerKey := d25Voucher(t, 2, 1)
	guid := ov.Header.Val.GUID
	state := &d25OwnerState{vouchers: map[protocol.GUID]*Voucher{guid: ov}, key: ownerKey}
	server := &TO2Server{
		Vouchers:             state,
		OwnerKeys:            state,
		VouchersForExtension: state,
	}
	nextKey, err := ecdsa.GenerateKey(elliptic.P384(), rand.Reader)
	if err != nil {
		t.Fatal(err)
	}

	d25NoPanic(t, "Resell", func() error {
		unextended, err := server.Resell(context.Background(), guid, nextKey.Public(), nil)
		if err != nil && unextended != ov {
			t.Errorf("expected the unextended voucher to be returned along with the error, got %v", unextended)
		}
		return err
	})
}

// d25Loopback is a Transport which CBOR encodes each message and hands it to a
// server's Respond method, like the HTTP transport does.
type d25Loopback struct {
	srv interface {
		Respond(ctx context.Context, msgType uint8, msg io.Reader) (respType uint8, resp any)
	}
}

func (l d25Loopback) Send(ctx context.Context, msgType uint8, msg any, _ kex.Session) (uint8, io.ReadCloser, error) {
	var req bytes.Buffer
	if err := cbor.NewEncoder(&req).Encode(msg); err != nil {
		return 0, nil, fmt.Errorf("error encoding request: %w", err)
	}
	respType, resp := l.srv.Respond(ctx, msgType, &req)
	var body bytes.Buffer
	if err := cbor.NewEncoder(&body).Encode(resp); err != nil {
		return 0, nil, fmt.Errorf("error encoding response: %w", err)
	}
	return respType, io.NopCloser(&body), nil
}

// The owner service registers such a voucher with a rendezvous server.
func TestD25RegisterBlobNullEntryPayload(t *testing.T) {
	for _, test := range []struct{ entries, null int }{{1, 0}, {2, 0}} {
		t.Run(fmt.Sprintf("payload %d of %d", test.null, test.entries), func(t *testing.T) {
			ov, ownerKey := d25Voucher(t, test.entries, test.null)
			guid := ov.Header.Val.GUID
			state := &d25OwnerState{vouchers: map[protocol.GUID]*Voucher{guid: ov}, key: ownerKey}
			to0 := &TO0Client{Vouchers: state, OwnerKeys: state}

			d25NoPanic(t, "RegisterBlob", func() error {
				_, err := to0.RegisterBlob(context.Background(), d25Loopback{&TO0Server{Session: &d25Session{}}}, guid, nil)
				return err
			})
		})
	}
}
