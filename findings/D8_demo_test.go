// Demonstration for D8: TO2Server.ovNextEntry indexes ov.Entries with the
// entry number requested by the device without a complete range check.

package fdo

import (
	"bytes"
	"context"
	"crypto/ecdsa"
	"crypto/elliptic"
	"crypto/rand"
	"crypto/x509"
	"encoding/pem"
	"fmt"
	"os"
	"path/filepath"
	"testing"

	"github.com/fido-device-onboard/go-fdo/cbor"
	"github.com/fido-device-onboard/go-fdo/protocol"
)

// Only the methods used by ovNextEntry are implemented; calling any other
// method panics on the nil embedded interface.
type d8Session struct {
	TO2SessionState
	guid protocol.GUID
}

func (s *d8Session) GUID(context.Context) (protocol.GUID, error) { return s.guid, nil }

type d8Vouchers struct {
	OwnerVoucherPersistentState
	ov *Voucher
}

func (s *d8Vouchers) Voucher(_ context.Context, guid protocol.GUID) (*Voucher, error) {
	if guid != s.ov.Header.Val.GUID {
		return nil, ErrNotFound
	}
	return s.ov, nil
}

func d8PEM(t *testing.T, basename string) []byte {
	t.Helper()
	b, err := os.ReadFile(filepath.Join("testdata", basename))
	if err != nil {
		t.Fatalf("error reading test data: %v", err)
	}
	blk, _ := pem.Decode(b)
	if blk == nil {
		t.Fatalf("%s contained invalid PEM data", basename)
	}
	return blk.Bytes
}

// d8Server returns a TO2 server holding a voucher with exactly one entry and
// a session which is already associated with that voucher.
func d8Server(t *testing.T) *TO2Server {
	t.Helper()
	var ov Voucher
	if err := cbor.Unmarshal(d8PEM(t, "ov.pem"), &ov); err != nil {
		t.Fatalf("error parsing voucher test data: %v", err)
	}
	mfgKey, err := x509.ParseECPrivateKey(d8PEM(t, "mfg_key.pem"))
	if err != nil {
		t.Fatalf("error parsing manufacturer key: %v", err)
	}
	ownerKey, err := ecdsa.GenerateKey(elliptic.P384(), rand.Reader)
	if err != nil {
		t.Fatal(err)
	}
	extended, err := ExtendVoucher(&ov, mfgKey, &ownerKey.PublicKey, nil)
	if err != nil {
		t.Fatalf("error extending voucher: %v", err)
	}
	if len(extended.Entries) != 1 {
		t.Fatalf("expected voucher with 1 entry, got %d", len(extended.Entries))
	}
	return &TO2Server{
		Session:  &d8Session{guid: extended.Header.Val.GUID},
		Vouchers: &d8Vouchers{ov: extended},
	}
}

// d8GetOVNextEntry sends TO2.GetOVNextEntry(62) with the given entry number,
// converting a panic of the server into an error.
func d8GetOVNextEntry(s *TO2Server, num int) (respType uint8, resp any, panicked error) {
	defer func() {
		if r := recover(); r != nil {
			panicked = fmt.Errorf("panic: %v", r)
		}
	}()
	var msg bytes.Buffer
	if err := cbor.NewEncoder(&msg).Encode(struct{ OVEntryNum int }{num}); err != nil {
		return 0, nil, nil
	}
	respType, resp = s.Respond(context.Background(), protocol.TO2GetOVNextEntryMsgType, &msg)
	return respType, resp, nil
}

func TestD8OVNextEntryOutOfRange(t *testing.T) {
	s := d8Server(t)

	// Control: the only valid entry number
	if typ, resp, err := d8GetOVNextEntry(s, 0); err != nil || typ != protocol.TO2OVNextEntryMsgType {
		t.Fatalf("entry 0: expected response type 63, got %d (%v), err=%v", typ, resp, err)
	}

	for _, num := range []int{
		1,       // == len(ov.Entries)
		2,       // > len(ov.Entries)
		-1,      // negative
		1 << 40, // large
	} {
		t.Run(fmt.Sprintf("OVEntryNum=%d", num), func(t *testing.T) {
			typ, resp, err := d8GetOVNextEntry(s, num)
			if err != nil {
				t.Fatalf("server panicked instead of returning an error: %v", err)
			}
			if typ != protocol.ErrorMsgType {
				t.Fatalf("expected error response (255), got type %d: %+v", typ, resp)
			}
		})
	}
}
