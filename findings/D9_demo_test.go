// Demonstration for D9: COSE Sign1 objects decoded from the wire may carry a
// CBOR null payload, which decodes to a nil Payload pointer. Several message
// handlers dereference Payload.Val without checking for nil.

package fdo

import (
	"bytes"
	"context"
	"crypto/ecdsa"
	"crypto/elliptic"
	"crypto/rand"
	"crypto/x509"
	"encoding/pem"
	"fmt"
	"io"
	"os"
	"path/filepath"
	"testing"
	"time"

	"github.com/fido-device-onboard/go-fdo/cbor"
	"github.com/fido-device-onboard/go-fdo/cose"
	"github.com/fido-device-onboard/go-fdo/kex"
	"github.com/fido-device-onboard/go-fdo/protocol"
)

// Session/state stubs. Only the methods which may be reached are implemented;
// calling any other method panics on the nil embedded interface.

type d9TO0Session struct{ nonce protocol.Nonce }

func (s *d9TO0Session) SetTO0SignNonce(_ context.Context, n protocol.Nonce) error {
	s.nonce = n
	return nil
}
func (s *d9TO0Session) TO0SignNonce(context.Context) (protocol.Nonce, error) { return s.nonce, nil }

type d9TO1Session struct{ nonce protocol.Nonce }

func (s *d9TO1Session) SetTO1ProofNonce(_ context.Context, n protocol.Nonce) error {
	s.nonce = n
	return nil
}
func (s *d9TO1Session) TO1ProofNonce(context.Context) (protocol.Nonce, error) { return s.nonce, nil }

type d9TO2Session struct {
	TO2SessionState
	guid protocol.GUID
}

func (s *d9TO2Session) GUID(context.Context) (protocol.GUID, error) { return s.guid, nil }
func (s *d9TO2Session) SetSetupDeviceNonce(context.Context, protocol.Nonce) error {
	return nil
}

type d9RVBlobs struct{ sets int }

func (s *d9RVBlobs) SetRVBlob(context.Context, *Voucher, *cose.Sign1[protocol.To1d, []byte], time.Time) error {
	s.sets++
	return nil
}
func (s *d9RVBlobs) RVBlob(context.Context, protocol.GUID) (*cose.Sign1[protocol.To1d, []byte], *Voucher, error) {
	return nil, nil, ErrNotFound
}

type d9Vouchers struct {
	OwnerVoucherPersistentState
	ov *Voucher
}

func (s *d9Vouchers) Voucher(context.Context, protocol.GUID) (*Voucher, error) { return s.ov, nil }

// d9Transport answers every request with a fixed, already encoded response.
type d9Transport struct {
	respType uint8
	body     []byte
}

func (tr *d9Transport) Send(context.Context, uint8, any, kex.Session) (uint8, io.ReadCloser, error) {
	return tr.respType, io.NopCloser(bytes.NewReader(tr.body)), nil
}

func d9PEM(t *testing.T, basename string) []byte {
	t.Helper()
	b, err := os.ReadFile(filepath.Join("testdata", basename))
	if err != nil {
		t.Fatalf("error reading test data: %v", err)
	}
	blk, _ := pem.Decode(b)
	if blk == nil {
		t.Fatalf("%s contained invalid PEM data", basename)
	}
	return blk.Bytes
}

func d9ExtendedVoucher(t *testing.T) *Voucher {
	t.Helper()
	var ov Voucher
	if err := cbor.Unmarshal(d9PEM(t, "ov.pem"), &ov); err != nil {
		t.Fatalf("error parsing voucher test data: %v", err)
	}
	mfgKey, err := x509.ParseECPrivateKey(d9PEM(t, "mfg_key.pem"))
	if err != nil {
		t.Fatalf("error parsing manufacturer key: %v", err)
	}
	ownerKey, err := ecdsa.GenerateKey(elliptic.P384(), rand.Reader)
	if err != nil {
		t.Fatal(err)
	}
	extended, err := ExtendVoucher(&ov, mfgKey, &ownerKey.PublicKey, nil)
	if err != nil {
		t.Fatalf("error extending voucher: %v", err)
	}
	return extended
}

func d9Marshal(t *testing.T, v any) []byte {
	t.Helper()
	var buf bytes.Buffer
	if err := cbor.NewEncoder(&buf).Encode(v); err != nil {
		t.Fatalf("error encoding test message: %v", err)
	}
	return buf.Bytes()
}

// d9NullPayloadSign1 returns an encoded COSE_Sign1 tag with a null payload:
//
//	18([h'', {}, null, h'0000'])
func d9NullPayloadSign1(t *testing.T) []byte {
	t.Helper()
	b := d9Marshal(t, cose.Sign1[cbor.RawBytes, []byte]{
		Payload:   nil,
		Signature: []byte{0x00, 0x00},
	}.Tag())

	// Make sure that the test message really decodes to a nil payload
	var decoded cose.Sign1Tag[cbor.RawBytes, []byte]
	if err := cbor.Unmarshal(b, &decoded); err != nil {
		t.Fatalf("test message must be well-formed: %v", err)
	}
	if decoded.Payload != nil {
		t.Fatalf("test message must decode to a nil payload")
	}
	return b
}

// d9Catch runs f and converts a panic into an error.
func d9Catch(f func()) (panicked error) {
	defer func() {
		if r := recover(); r != nil {
			panicked = fmt.Errorf("panic: %v", r)
		}
	}()
	f()
	return nil
}

func d9ExpectErrorMsg(t *testing.T, r protocol.Responder, msgType uint8, msg []byte) {
	t.Helper()
	var typ uint8
	var resp any
	if err := d9Catch(func() {
		typ, resp = r.Respond(context.Background(), msgType, bytes.NewReader(msg))
	}); err != nil {
		t.Fatalf("server panicked instead of returning an error: %v", err)
	}
	if typ != protocol.ErrorMsgType {
		t.Fatalf("expected error response (255), got type %d: %+v", typ, resp)
	}
}

// TO1.ProveToRV(32) with null EAT payload -> TO1Server.rvRedirect
func TestD9TO1ProveToRVNullPayload(t *testing.T) {
	s := &TO1Server{Session: new(d9TO1Session), RVBlobs: new(d9RVBlobs)}
	d9ExpectErrorMsg(t, s, protocol.TO1ProveToRVMsgType, d9NullPayloadSign1(t))
}

// TO0.OwnerSign(22) with null to1d payload -> TO0Server.acceptOwner
func TestD9TO0OwnerSignNullPayload(t *testing.T) {
	blobs := new(d9RVBlobs)
	s := &TO0Server{Session: new(d9TO0Session), RVBlobs: blobs}
	msg := d9Marshal(t, ownerSign{
		To0d: *cbor.NewBstr(to0d{Voucher: *d9ExtendedVoucher(t), WaitSeconds: 3600}),
		To1d: cose.Sign1Tag[protocol.To1d, []byte]{Sign1: cose.Sign1[protocol.To1d, []byte]{
			Payload:   nil,
			Signature: []byte{0x00, 0x00},
		}},
	})
	d9ExpectErrorMsg(t, s, protocol.TO0OwnerSignMsgType, msg)
	if blobs.sets != 0 {
		t.Errorf("rendezvous blob must not be stored")
	}
}

// TO0.OwnerSign(22) with a voucher whose first entry has a null payload ->
// TO0Server.acceptOwner -> Voucher.VerifyEntries
func TestD9TO0OwnerSignNullVoucherEntryPayload(t *testing.T) {
	blobs := new(d9RVBlobs)
	s := &TO0Server{Session: new(d9TO0Session), RVBlobs: blobs}

	ov := d9ExtendedVoucher(t)
	alg := ov.Entries[0].Payload.Val.PreviousHash.Algorithm
	ov.Entries[0].Payload = nil
	d := to0d{Voucher: *ov, WaitSeconds: 3600}
	h := alg.HashFunc().New()
	if err := cbor.NewEncoder(h).Encode(d); err != nil {
		t.Fatal(err)
	}
	msg := d9Marshal(t, ownerSign{
		To0d: *cbor.NewBstr(d),
		To1d: cose.Sign1Tag[protocol.To1d, []byte]{Sign1: cose.Sign1[protocol.To1d, []byte]{
			Payload: cbor.NewByteWrap(protocol.To1d{
				To0dHash: protocol.Hash{Algorithm: alg, Value: h.Sum(nil)},
			}),
			Signature: []byte{0x00, 0x00},
		}},
	})
	d9ExpectErrorMsg(t, s, protocol.TO0OwnerSignMsgType, msg)
	if blobs.sets != 0 {
		t.Errorf("rendezvous blob must not be stored")
	}
}

// TO2.ProveDevice(64) with null EAT payload -> TO2Server.setupDevice
func TestD9TO2ProveDeviceNullPayload(t *testing.T) {
	ov := d9ExtendedVoucher(t)
	s := &TO2Server{
		Session:  &d9TO2Session{guid: ov.Header.Val.GUID},
		Vouchers: &d9Vouchers{ov: ov},
	}
	d9ExpectErrorMsg(t, s, protocol.TO2ProveDeviceMsgType, d9NullPayloadSign1(t))
}

// TO2.ProveOVHdr(61) with null payload received by the device ->
// sendHelloDevice
func TestD9DeviceProveOVHdrNullPayload(t *testing.T) {
	deviceKey, err := ecdsa.GenerateKey(elliptic.P384(), rand.Reader)
	if err != nil {
		t.Fatal(err)
	}
	transport := &d9Transport{respType: protocol.TO2ProveOVHdrMsgType, body: d9NullPayloadSign1(t)}
	conf := &TO2Config{Key: deviceKey, KeyExchange: kex.ECDH384Suite, CipherSuite: kex.A256GcmCipher}

	var sendErr error
	if err := d9Catch(func() {
		_, _, _, sendErr = sendHelloDevice(contextWithErrMsg(context.Background()), transport, conf)
	}); err != nil {
		t.Fatalf("device panicked instead of returning an error: %v", err)
	}
	if sendErr == nil {
		t.Fatal("expected an error for TO2.ProveOVHdr without payload")
	}
}

// TO2.SetupDevice(65) with null payload received by the device -> proveDevice
func TestD9DeviceSetupDeviceNullPayload(t *testing.T) {
	deviceKey, err := ecdsa.GenerateKey(elliptic.P384(), rand.Reader)
	if err != nil {
		t.Fatal(err)
	}
	ownerKey, err := ecdsa.GenerateKey(elliptic.P384(), rand.Reader)
	if err != nil {
		t.Fatal(err)
	}
	xA, err := kex.ECDH384Suite.New(nil, kex.A256GcmCipher).Parameter(rand.Reader, nil)
	if err != nil {
		t.Fatalf("error generating owner key exchange parameter: %v", err)
	}
	sess := kex.ECDH384Suite.New(xA, kex.A256GcmCipher)
	transport := &d9Transport{respType: protocol.TO2SetupDeviceMsgType, body: d9NullPayloadSign1(t)}
	conf := &TO2Config{Key: deviceKey, KeyExchange: kex.ECDH384Suite, CipherSuite: kex.A256GcmCipher}

	var proveErr error
	if err := d9Catch(func() {
		_, _, proveErr = proveDevice(contextWithErrMsg(context.Background()), transport, protocol.Nonce{}, ownerKey.Public(), sess, conf)
	}); err != nil {
		t.Fatalf("device panicked instead of returning an error: %v", err)
	}
	if proveErr == nil {
		t.Fatal("expected an error for TO2.SetupDevice without payload")
	}
}
