// SPDX-FileCopyrightText: (C) 2024 Intel Corporation
// SPDX-License-Identifier: Apache 2.0

package kex

import (
	"bytes"
	"crypto/rand"
	"crypto/rsa"
	"encoding"
	"testing"

	"github.com/fido-device-onboard/go-fdo/cbor"
)

// TestD16RepeatedSetParameter checks that calling SetParameter a second time
// on a server session (e.g. due to a repeated TO2.ProveDevice message) returns
// an error instead of panicking and does not modify the session keys. The
// session is tested both in memory and after a round trip through its
// persisted form, as used by servers storing session state between messages.
func TestD16RepeatedSetParameter(t *testing.T) {
	ownerKey, err := rsa.GenerateKey(rand.Reader, 2048)
	if err != nil {
		t.Fatal(err)
	}

	for _, suite := range []Suite{
		DHKEXid14Suite,
		DHKEXid15Suite,
		ECDH256Suite,
		ECDH384Suite,
		ASYMKEX2048Suite,
	} {
		for _, persist := range []bool{false, true} {
			name := string(suite)
			if persist {
				name += "/persisted"
			}
			t.Run(name, func(t *testing.T) {
				serverSess := suite.New(nil, A128GcmCipher)
				xA, err := serverSess.Parameter(rand.Reader, &ownerKey.PublicKey)
				if err != nil {
					t.Fatal(err)
				}
				clientSess := suite.New(xA, A128GcmCipher)
				xB, err := clientSess.Parameter(rand.Reader, &ownerKey.PublicKey)
				if err != nil {
					t.Fatal(err)
				}

				// First TO2.ProveDevice
				if err := serverSess.SetParameter(bytes.Clone(xB), ownerKey); err != nil {
					t.Fatalf("first SetParameter: %v", err)
				}

				if persist {
					data, err := serverSess.(encoding.BinaryMarshaler).MarshalBinary()
					if err != nil {
						t.Fatal(err)
					}
					serverSess = suite.New(nil, A128GcmCipher)
					if err := serverSess.(encoding.BinaryUnmarshaler).UnmarshalBinary(data); err != nil {
						t.Fatal(err)
					}
				}

				// Repeated TO2.ProveDevice
				func() {
					defer func() {
						if r := recover(); r != nil {
							t.Fatalf("second SetParameter panicked: %v", r)
						}
					}()
					if err := serverSess.SetParameter(bytes.Clone(xB), ownerKey); err == nil {
						t.Error("second SetParameter: expected an error")
					}
				}()

				// Session must still be usable with the established keys
				encrypted, err := clientSess.Encrypt(rand.Reader, "hello")
				if err != nil {
					t.Fatal(err)
				}
				var buf bytes.Buffer
				if err := cbor.NewEncoder(&buf).Encode(encrypted); err != nil {
					t.Fatal(err)
				}
				decrypted, err := serverSess.Decrypt(rand.Reader, &buf)
				if err != nil {
					t.Fatalf("session keys were modified by the repeated SetParameter: %v", err)
				}
				var got string
				if err := cbor.Unmarshal(decrypted, &got); err != nil || got != "hello" {
					t.Fatalf("unexpected decrypted value %q: %v", got, err)
				}
			})
		}
	}
}
