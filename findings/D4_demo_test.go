package cose

import (
	"crypto/ecdsa"
	"crypto/elliptic"
	"crypto/rand"
	"fmt"
	"strings"
	"testing"

	"github.com/fido-device-onboard/go-fdo/cbor"
)

func d4Verify(s1 Sign1[[]byte, []byte], pub *ecdsa.PublicKey, payload *[]byte) (ok bool, err error) {
	defer func() {
		if r := recover(); r != nil {
			err = fmt.Errorf("PANIC: %v", r)
		}
	}()
	return s1.Verify(pub, payload, nil)
}

func d4Signed(t *testing.T) (*ecdsa.PrivateKey, Sign1[[]byte, []byte]) {
	key, err := ecdsa.GenerateKey(elliptic.P256(), rand.Reader)
	if err != nil {
		t.Fatal(err)
	}
	s1 := Sign1[[]byte, []byte]{Payload: cbor.NewByteWrap([]byte("Hello world"))}
	if err := s1.Sign(key, nil, nil, nil); err != nil {
		t.Fatal(err)
	}
	if ok, err := s1.Verify(key.Public(), nil, nil); err != nil || !ok {
		t.Fatalf("good signature did not verify: %t, %v", ok, err)
	}
	return key, s1
}

// D4(a): an ECDSA signature which is not 2*n bytes must never cause a panic
// and must not verify.
func TestD4ShortECDSASignature(t *testing.T) {
	key, s1 := d4Signed(t)
	good := s1.Signature

	for _, sig := range [][]byte{
		{0x01, 0x02},
		good[:30],
		good[:32],
		good[:62],
		append(append([]byte{}, good...), 0x00, 0x00),
	} {
		s1.Signature = sig
		ok, err := d4Verify(s1, &key.PublicKey, nil)
		if err != nil && strings.HasPrefix(err.Error(), "PANIC:") {
			t.Errorf("signature length %d: %v", len(sig), err)
			continue
		}
		if ok {
			t.Errorf("signature length %d: verified", len(sig))
		}
	}

	// Round trip through CBOR, as a received message would be
	s1.Signature = []byte{0x01, 0x02}
	data, err := cbor.Marshal(s1.Tag())
	if err != nil {
		t.Fatal(err)
	}
	var got Sign1Tag[[]byte, []byte]
	if err := cbor.Unmarshal(data, &got); err != nil {
		t.Fatal(err)
	}
	if ok, err := d4Verify(got.Sign1, &key.PublicKey, nil); ok || (err != nil && strings.HasPrefix(err.Error(), "PANIC:")) {
		t.Errorf("decoded short signature: %t, %v", ok, err)
	}
}

// D4(b): an algorithm ID in the protected header which is not registered must
// result in an error.
func TestD4UnknownSignatureAlgorithm(t *testing.T) {
	key, s1 := d4Signed(t)

	for _, alg := range []int64{0, -8, 1234567} {
		s1.Protected[AlgLabel] = alg
		ok, err := d4Verify(s1, &key.PublicKey, nil)
		if err == nil {
			t.Errorf("alg %d: expected an error, got %t", alg, ok)
		} else if strings.HasPrefix(err.Error(), "PANIC:") {
			t.Errorf("alg %d: %v", alg, err)
		}
		if ok {
			t.Errorf("alg %d: verified", alg)
		}
	}
}

// D4(c): a detached (nil) payload which is not passed to Verify is an error.
func TestD4NilPayload(t *testing.T) {
	key, s1 := d4Signed(t)
	s1.Payload = nil
	ok, err := d4Verify(s1, &key.PublicKey, nil)
	if err == nil || ok {
		t.Errorf("expected an error, got %t", ok)
	} else if strings.HasPrefix(err.Error(), "PANIC:") {
		t.Error(err)
	}

	// A detached payload passed as an argument still verifies
	payload := []byte("Hello world")
	if ok, err := d4Verify(s1, &key.PublicKey, &payload); err != nil || !ok {
		t.Errorf("detached payload: %t, %v", ok, err)
	}
}
