// SPDX-FileCopyrightText: (C) 2024 Intel Corporation
// SPDX-License-Identifier: Apache 2.0

package protocol

import (
	"fmt"
	"testing"
)

// TestD5MalformedExtRVDoesNotPanic checks that interpreting rendezvous info
// containing an RVExtRV variable with a malformed value never panics and that
// the malformed value is ignored like any other malformed variable value.
func TestD5MalformedExtRVDoesNotPanic(t *testing.T) {
	for _, value := range [][]byte{
		nil,          // variable with omitted value
		{},           // empty byte string value
		{0x80},       // empty CBOR array
		{0x81},       // array missing its only element
		{0x98},       // truncated array length
		{0x9f},       // indefinite array with no break
		{0x9f, 0xff}, // empty indefinite array
		{0x40},       // not an array
	} {
		t.Run(fmt.Sprintf("%x", value), func(t *testing.T) {
			rvInfo := [][]RvInstruction{{
				{Variable: RVDns, Value: []byte{0x67, 'e', 'x', 'a', 'm', 'p', 'l', 'e'}},
				{Variable: RVExtRV, Value: value},
			}}
			for name, parse := range map[string]func([][]RvInstruction) []RvDirective{
				"device": ParseDeviceRvInfo,
				"owner":  ParseOwnerRvInfo,
			} {
				func() {
					defer func() {
						if r := recover(); r != nil {
							t.Errorf("%s: parsing rendezvous info panicked: %v", name, r)
						}
					}()
					dirs := parse(rvInfo)
					if len(dirs) != 1 {
						t.Fatalf("%s: expected 1 directive, got %d", name, len(dirs))
					}
					if dirs[0].ExtMechanism != "" || len(dirs[0].ExtArguments) != 0 {
						t.Errorf("%s: malformed RVExtRV value must be ignored, got mechanism=%q args=%x",
							name, dirs[0].ExtMechanism, dirs[0].ExtArguments)
					}
				}()
			}
		})
	}
}
