// Demonstration for finding D29 (C04): ExtendVoucher accepts a next-owner key of a
// different type or size than the manufacturer key.
//
// "Each key in the Ownership Voucher must copy the public key type from the
// manufacturer's key" - ExtendVoucher enforces this for the key that signs the
// extension, but the key it extends *to* was passed to protocol.NewPublicKey
// unchecked and labelled with the manufacturer key's type. Extending the P-384
// test voucher to a P-256 or an RSA key succeeded; the resulting voucher verifies,
// names an owner whose key a device restricted to the manufacturer's algorithm
// cannot use, and cannot be extended any further.
//
// Copy into the repository root (package fdo_test) and run:
//
//	go test -vet=off -count=1 -run TestD29ExtendToWrongKeyType .
package fdo_test

import (
	"crypto"
	"crypto/ecdsa"
	"crypto/elliptic"
	"crypto/rand"
	"crypto/rsa"
	"crypto/x509"
	"encoding/pem"
	"os"
	"testing"

	"github.com/fido-device-onboard/go-fdo"
	"github.com/fido-device-onboard/go-fdo/cbor"
)

func TestD29ExtendToWrongKeyType(t *testing.T) {
	b, err := os.ReadFile("testdata/ov.pem")
	if err != nil {
		t.Fatal(err)
	}
	blk, _ := pem.Decode(b)
	var ov fdo.Voucher
	if err := cbor.Unmarshal(blk.Bytes, &ov); err != nil {
		t.Fatal(err)
	}
	kb, err := os.ReadFile("testdata/mfg_key.pem")
	if err != nil {
		t.Fatal(err)
	}
	kblk, _ := pem.Decode(kb)
	mfgKey, err := x509.ParseECPrivateKey(kblk.Bytes)
	if err != nil {
		t.Fatal(err)
	}
	if mfgKey.Curve != elliptic.P384() {
		t.Fatalf("test voucher is expected to have a P-384 manufacturer key")
	}

	// sanity: same type and curve is accepted
	good, err := ecdsa.GenerateKey(elliptic.P384(), rand.Reader)
	if err != nil {
		t.Fatal(err)
	}
	if _, err := fdo.ExtendVoucher(&ov, crypto.Signer(mfgKey), &good.PublicKey, nil); err != nil {
		t.Fatalf("extension to a P-384 key must succeed: %v", err)
	}

	p256, err := ecdsa.GenerateKey(elliptic.P256(), rand.Reader)
	if err != nil {
		t.Fatal(err)
	}
	if xv, err := fdo.ExtendVoucher(&ov, crypto.Signer(mfgKey), &p256.PublicKey, nil); err == nil {
		t.Errorf("extension of a P-384 voucher to a P-256 next owner succeeded (VerifyEntries: %v)", xv.VerifyEntries())
	}
	rsaKey, err := rsa.GenerateKey(rand.Reader, 2048)
	if err != nil {
		t.Fatal(err)
	}
	if xv, err := fdo.ExtendVoucher(&ov, crypto.Signer(mfgKey), &rsaKey.PublicKey, nil); err == nil {
		t.Errorf("extension of a P-384 voucher to an RSA next owner succeeded (VerifyEntries: %v)", xv.VerifyEntries())
	}
}
