// Package directory: root of the module (github.com/fido-device-onboard/go-fdo),
// i.e. copy this file to /tmp/fixE/D24_demo_test.go and run
//
//	go test -vet=off -count=1 -run 'TestD24' .
//
// D24: the ServiceInfo array of TO2.DeviceServiceInfo and TO2.OwnerServiceInfo
// is decoded into a []*serviceinfo.KV. A null element (`[null]`) decodes
// without error to a nil *KV, which is passed to
// (*serviceinfo.ChunkWriter).WriteChunk, which dereferences it. An onboarding
// device can crash the owner service and an owner service can crash the
// device.

package fdo

import (
	"bytes"
	"context"
	"crypto"
	"crypto/ecdsa"
	"crypto/elliptic"
	"crypto/hmac"
	"crypto/rand"
	"crypto/sha256"
	"crypto/sha512"
	"crypto/x509"
	"crypto/x509/pkix"
	"encoding"
	"fmt"
	"io"
	"math/big"
	"runtime/debug"
	"strings"
	"testing"
	"time"

	"github.com/fido-device-onboard/go-fdo/cbor"
	"github.com/fido-device-onboard/go-fdo/kex"
	"github.com/fido-device-onboard/go-fdo/protocol"
	"github.com/fido-device-onboard/go-fdo/serviceinfo"
)

// The exported API of the serviceinfo package.
func TestD24WriteChunkNil(t *testing.T) {
	unchunked, unchunker := serviceinfo.NewChunkInPipe(2)
	defer func() {
		if r := recover(); r != nil {
			t.Fatalf("WriteChunk(nil) panicked: %v", r)
		}
	}()
	if err := unchunker.WriteChunk(&serviceinfo.KV{Key: "mod:msg", Val: []byte{0xf5}}); err != nil {
		t.Fatal(err)
	}
	if err := unchunker.WriteChunk(nil); err == nil {
		t.Error("expected an error from WriteChunk(nil)")
	} else {
		t.Logf("WriteChunk(nil): %v", err)
	}
	if err := unchunker.Close(); err != nil {
		t.Fatal(err)
	}
	if key, _, ok := unchunked.NextServiceInfo(); !ok || key != "mod:msg" {
		t.Errorf("expected the service info written before to be readable, got %q, %t", key, ok)
	}
}

// Manufacturer/owner service state: vouchers and one owner key.
type d24OwnerState struct {
	vouchers map[protocol.GUID]*Voucher
	key      crypto.Signer
}

func (s *d24OwnerState) AddVoucher(_ context.Context, ov *Voucher) error {
	s.vouchers[ov.Header.Val.GUID] = ov
	return nil
}
func (s *d24OwnerState) ReplaceVoucher(_ context.Context, guid protocol.GUID, ov *Voucher) error {
	delete(s.vouchers, guid)
	s.vouchers[ov.Header.Val.GUID] = ov
	return nil
}
func (s *d24OwnerState) Voucher(_ context.Context, guid protocol.GUID) (*Voucher, error) {
	ov, ok := s.vouchers[guid]
	if !ok {
		return nil, ErrNotFound
	}
	return ov, nil
}
func (s *d24OwnerState) OwnerKey(context.Context, protocol.KeyType, int) (crypto.Signer, []*x509.Certificate, error) {
	return s.key, nil, nil
}

// A single DI or TO2 session.
type d24Session struct {
	deviceCertChain           []*x509.Certificate
	ovh                       *VoucherHeader
	guid, replacementGUID     *protocol.GUID
	rvInfo                    [][]protocol.RvInstruction
	replacementHmac           *protocol.Hmac
	suite                     kex.Suite
	sess                      []byte
	proveDevice, setupDevice  *protocol.Nonce
	mtu                       uint16
	devmod                    *serviceinfo.Devmod
	devmodModules             []string
	devmodComplete, cleanedUp bool
}

func (s *d24Session) SetDeviceCertChain(_ context.Context, chain []*x509.Certificate) error {
	s.deviceCertChain = chain
	return nil
}
func (s *d24Session) DeviceCertChain(context.Context) ([]*x509.Certificate, error) {
	return s.deviceCertChain, nil
}
func (s *d24Session) SetIncompleteVoucherHeader(_ context.Context, ovh *VoucherHeader) error {
	s.ovh = ovh
	return nil
}
func (s *d24Session) IncompleteVoucherHeader(context.Context) (*VoucherHeader, error) {
	if s.ovh == nil {
		return nil, ErrNotFound
	}
	return s.ovh, nil
}
func (s *d24Session) SetGUID(_ context.Context, guid protocol.GUID) error {
	s.guid = &guid
	return nil
}
func (s *d24Session) GUID(context.Context) (protocol.GUID, error) {
	if s.guid == nil {
		return protocol.GUID{}, ErrNotFound
	}
	return *s.guid, nil
}
func (s *d24Session) SetRvInfo(_ context.Context, rvInfo [][]protocol.RvInstruction) error {
	s.rvInfo = rvInfo
	return nil
}
func (s *d24Session) RvInfo(context.Context) ([][]protocol.RvInstruction, error) {
	return s.rvInfo, nil
}
func (s *d24Session) SetReplacementGUID(_ context.Context, guid protocol.GUID) error {
	s.replacementGUID = &guid
	return nil
}
func (s *d24Session) ReplacementGUID(context.Context) (protocol.GUID, error) {
	if s.replacementGUID == nil {
		return protocol.GUID{}, ErrNotFound
	}
	return *s.replacementGUID, nil
}
func (s *d24Session) SetReplacementHmac(_ context.Context, hmac protocol.Hmac) error {
	s.replacementHmac = &hmac
	return nil
}
func (s *d24Session) ReplacementHmac(context.Context) (protocol.Hmac, error) {
	if s.replacementHmac == nil {
		return protocol.Hmac{}, ErrNotFound
	}
	return *s.replacementHmac, nil
}
func (s *d24Session) SetXSession(_ context.Context, suite kex.Suite, sess kex.Session) error {
	data, err := sess.(encoding.BinaryMarshaler).MarshalBinary()
	if err != nil {
		return err
	}
	s.suite, s.sess = suite, data
	return nil
}
func (s *d24Session) XSession(context.Context) (kex.Suite, kex.Session, error) {
	if s.sess == nil {
		return "", nil, ErrNotFound
	}
	sess := s.suite.New(nil, kex.A256GcmCipher)
	if err := sess.(encoding.BinaryUnmarshaler).UnmarshalBinary(s.sess); err != nil {
		return "", nil, err
	}
	return s.suite, sess, nil
}
func (s *d24Session) SetProveDeviceNonce(_ context.Context, nonce protocol.Nonce) error {
	s.proveDevice = &nonce
	return nil
}
func (s *d24Session) ProveDeviceNonce(context.Context) (protocol.Nonce, error) {
	if s.proveDevice == nil {
		return protocol.Nonce{}, ErrNotFound
	}
	return *s.proveDevice, nil
}
func (s *d24Session) SetSetupDeviceNonce(_ context.Context, nonce protocol.Nonce) error {
	s.setupDevice = &nonce
	return nil
}
func (s *d24Session) SetupDeviceNonce(context.Context) (protocol.Nonce, error) {
	if s.setupDevice == nil {
		return protocol.Nonce{}, ErrNotFound
	}
	return *s.setupDevice, nil
}
func (s *d24Session) SetMTU(_ context.Context, mtu uint16) error {
	s.mtu = mtu
	return nil
}
func (s *d24Session) MTU(context.Context) (uint16, error) { return s.mtu, nil }
func (s *d24Session) SetDevmod(_ context.Context, devmod serviceinfo.Devmod, modules []string, complete bool) error {
	s.devmod, s.devmodModules, s.devmodComplete = &devmod, modules, complete
	return nil
}
func (s *d24Session) Devmod(context.Context) (serviceinfo.Devmod, []string, bool, error) {
	if s.devmod == nil {
		return serviceinfo.Devmod{}, nil, false, ErrNotFound
	}
	return *s.devmod, s.devmodModules, s.devmodComplete, nil
}

// No owner modules: TO2 is done after devmod.
func (s *d24Session) Module(context.Context) (string, serviceinfo.OwnerModule, error) {
	return "", nil, fmt.Errorf("no module")
}
func (s *d24Session) NextModule(context.Context) (bool, error) { return false, nil }
func (s *d24Session) CleanupModules(context.Context)           { s.cleanedUp = true }

// d24Loopback is a Transport which CBOR encodes each message and hands it to
// the server's Respond method, like fdotest.Transport. Message bodies are
// not encrypted. Either peer may misbehave by replacing the body of a
// message.
type d24Loopback struct {
	t   *testing.T
	srv interface {
		Respond(ctx context.Context, msgType uint8, msg io.Reader) (respType uint8, resp any)
	}

	// Replace the body of a request (device misbehaves) or response (owner
	// service misbehaves) of the given message type
	badRequest, badResponse map[uint8][]byte

	serverPanic any
	errMsg      *protocol.ErrorMessage // sent by the device
}

func (l *d24Loopback) Send(ctx context.Context, msgType uint8, msg any, _ kex.Session) (respType uint8, _ io.ReadCloser, _ error) {
	if msgType == protocol.ErrorMsgType {
		l.errMsg = msg.(*protocol.ErrorMessage)
		return 0, nil, nil
	}

	var req bytes.Buffer
	if err := cbor.NewEncoder(&req).Encode(msg); err != nil {
		return 0, nil, fmt.Errorf("error encoding request: %w", err)
	}
	if body, ok := l.badRequest[msgType]; ok {
		req.Reset()
		_, _ = req.Write(body)
	}

	var resp any
	func() {
		defer func() {
			if r := recover(); r != nil {
				l.serverPanic = r
				l.t.Errorf("owner service panicked in Respond(%d): %v\n%s", msgType, r, debug.Stack())
			}
		}()
		respType, resp = l.srv.Respond(ctx, msgType, &req)
	}()
	if l.serverPanic != nil {
		return 0, nil, fmt.Errorf("owner service crashed")
	}

	var body bytes.Buffer
	if err := cbor.NewEncoder(&body).Encode(resp); err != nil {
		return 0, nil, fmt.Errorf("error encoding response: %w", err)
	}
	if bad, ok := l.badResponse[respType]; ok {
		body.Reset()
		_, _ = body.Write(bad)
	}
	return respType, io.NopCloser(&body), nil
}

// d24Onboard runs DI for a new device, extends its voucher to an owner service
// and runs TO2 using the given transport.
func d24Onboard(t *testing.T, transport *d24Loopback) (*d24Session, error) {
	t.Helper()

	newKey := func() *ecdsa.PrivateKey {
		key, err := ecdsa.GenerateKey(elliptic.P384(), rand.Reader)
		if err != nil {
			t.Fatal(err)
		}
		return key
	}
	deviceKey, mfgKey, ownerKey := newKey(), newKey(), newKey()
	secret := make([]byte, 32)
	if _, err := rand.Read(secret); err != nil {
		t.Fatal(err)
	}
	hmacSha256, hmacSha384 := hmac.New(sha256.New, secret), hmac.New(sha512.New384, secret)

	// Device initialization
	state := &d24OwnerState{vouchers: make(map[protocol.GUID]*Voucher), key: ownerKey}
	cred, err := DI(context.Background(), &d24Loopback{t: t, srv: &DIServer[string]{
		Session:  new(d24Session),
		Vouchers: state,
		SignDeviceCertificate: func(*string) ([]*x509.Certificate, error) {
			template := &x509.Certificate{
				SerialNumber: big.NewInt(1),
				Subject:      pkix.Name{CommonName: "D24"},
				NotBefore:    time.Now().Add(-time.Hour),
				NotAfter:     time.Now().Add(time.Hour),
			}
			der, err := x509.CreateCertificate(rand.Reader, template, template, deviceKey.Public(), deviceKey)
			if err != nil {
				return nil, err
			}
			cert, err := x509.ParseCertificate(der)
			if err != nil {
				return nil, err
			}
			return []*x509.Certificate{cert}, nil
		},
		DeviceInfo: func(context.Context, *string, []*x509.Certificate) (string, protocol.PublicKey, error) {
			mfgPubKey, err := protocol.NewPublicKey(protocol.Secp384r1KeyType, mfgKey.Public().(*ecdsa.PublicKey), false)
			if err != nil {
				return "", protocol.PublicKey{}, err
			}
			return "D24", *mfgPubKey, nil
		},
		RvInfo: func(context.Context, *Voucher) ([][]protocol.RvInstruction, error) {
			return [][]protocol.RvInstruction{}, nil
		},
	}}, "D24", DIConfig{HmacSha256: hmacSha256, HmacSha384: hmacSha384, Key: deviceKey})
	if err != nil {
		t.Fatalf("DI failed: %v", err)
	}

	// Extend the voucher to the owner service
	extended, err := ExtendVoucher(state.vouchers[cred.GUID], mfgKey, ownerKey.Public().(*ecdsa.PublicKey), nil)
	if err != nil {
		t.Fatalf("error extending voucher: %v", err)
	}
	state.vouchers[cred.GUID] = extended

	session := new(d24Session)
	transport.t = t
	transport.srv = &TO2Server{
		Session:   session,
		Modules:   session,
		Vouchers:  state,
		OwnerKeys: state,
		RvInfo: func(_ context.Context, ov Voucher) ([][]protocol.RvInstruction, error) {
			return ov.Header.Val.RvInfo, nil
		},
	}

	_, err = TO2(context.Background(), transport, nil, TO2Config{
		Cred:        *cred,
		HmacSha256:  hmacSha256,
		HmacSha384:  hmacSha384,
		Key:         deviceKey,
		Devmod:      serviceinfo.Devmod{Os: "linux", Arch: "amd64", Version: "1", Device: "D24", FileSep: "/", Bin: "amd64"},
		KeyExchange: kex.ECDH384Suite,
		CipherSuite: kex.A256GcmCipher,
	})
	return session, err
}

// The test setup is able to complete TO2.
func TestD24Onboard(t *testing.T) {
	if _, err := d24Onboard(t, &d24Loopback{}); err != nil {
		t.Fatalf("TO2 failed: %v", err)
	}
}

// An onboarding device sends TO2.DeviceServiceInfo = [false, [null]].
func TestD24DeviceServiceInfoNull(t *testing.T) {
	transport := &d24Loopback{badRequest: map[uint8][]byte{
		protocol.TO2DeviceServiceInfoMsgType: {0x82, 0xf4, 0x81, 0xf6},
	}}
	session, err := d24Onboard(t, transport)
	if transport.serverPanic != nil {
		return // already reported
	}
	if err == nil {
		t.Fatal("expected TO2 to fail")
	}
	t.Logf("TO2: %v", err)
	if !strings.Contains(err.Error(), "error received from TO2.DeviceServiceInfo request") {
		t.Errorf("expected an error message from the owner service in response to TO2.DeviceServiceInfo, got: %v", err)
	}
	if !session.cleanedUp {
		t.Error("expected the owner service to clean up modules")
	}
}

// An owner service sends TO2.OwnerServiceInfo = [false, false, [null]].
func TestD24OwnerServiceInfoNull(t *testing.T) {
	transport := &d24Loopback{badResponse: map[uint8][]byte{
		protocol.TO2OwnerServiceInfoMsgType: {0x83, 0xf4, 0xf4, 0x81, 0xf6},
	}}
	defer func() {
		if r := recover(); r != nil {
			t.Fatalf("TO2 panicked on the device: %v\n%s", r, debug.Stack())
		}
	}()
	_, err := d24Onboard(t, transport)
	if err == nil {
		t.Fatal("expected TO2 to fail")
	}
	t.Logf("TO2: %v", err)
	if transport.errMsg == nil {
		t.Fatal("expected the device to send an error message to the owner service")
	}
	t.Logf("error message sent to owner: %v", *transport.errMsg)
	if transport.errMsg.PrevMsgType != protocol.TO2OwnerServiceInfoMsgType {
		t.Errorf("expected an error message for TO2.OwnerServiceInfo, got: %v", *transport.errMsg)
	}
}
