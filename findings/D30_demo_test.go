// Demonstration for finding D30 (C15, C16): a yield before the first service info of a
// round ends the round with an empty message that claims "no more service info".
//
// ForceNewMessage (a module's yield callback) queues a pipe that is closed at once.
// When that marker is the first thing ChunkReader.ReadChunk meets in a round, it
// returns ErrSizeTooSmall with the full budget still available, and
// exchangeServiceInfoRound takes that for "likely due to a yield" and sends
// IsMoreServiceInfo = false with no KVs - although the service info the module
// wrote right after the yield is waiting in the pipe. If the owner has nothing
// more to do it answers IsDone and the round (and the whole exchange) ends: what
// the device module wrote is never sent.
//
// Copy into the repository root (package fdo, internal test) and run:
//
//	go test -vet=off -count=1 -run TestD30YieldFirstLosesServiceInfo .
package fdo

import (
	"bytes"
	"context"
	"io"
	"testing"

	"github.com/fido-device-onboard/go-fdo/cbor"
	"github.com/fido-device-onboard/go-fdo/kex"
	"github.com/fido-device-onboard/go-fdo/protocol"
	"github.com/fido-device-onboard/go-fdo/serviceinfo"
)

type d30Transport struct {
	sent []deviceServiceInfo
}

func (tr *d30Transport) Send(_ context.Context, msgType uint8, msg any, _ kex.Session) (uint8, io.ReadCloser, error) {
	if dsi, ok := msg.(deviceServiceInfo); ok {
		tr.sent = append(tr.sent, dsi)
	}
	// the owner has nothing (more) to send and all its modules are done
	body, err := cbor.Marshal(ownerServiceInfo{IsMoreServiceInfo: false, IsDone: true})
	if err != nil {
		return 0, nil, err
	}
	return protocol.TO2OwnerServiceInfoMsgType, io.NopCloser(bytes.NewReader(body)), nil
}

func TestD30YieldFirstLosesServiceInfo(t *testing.T) {
	deviceInfo, send := serviceinfo.NewChunkOutPipe(10)
	_, ownerInfoIn := serviceinfo.NewChunkInPipe(10)

	// a device module that yields first and then responds
	if err := send.ForceNewMessage(); err != nil {
		t.Fatal(err)
	}
	if err := send.NextServiceInfo("mod", "result"); err != nil {
		t.Fatal(err)
	}
	if _, err := send.Write([]byte("0123456789")); err != nil {
		t.Fatal(err)
	}
	if err := send.Close(); err != nil {
		t.Fatal(err)
	}

	tr := &d30Transport{}
	_, done, err := exchangeServiceInfoRound(contextWithErrMsg(context.Background()), tr, 1300, deviceInfo, ownerInfoIn, nil)
	if err != nil {
		t.Fatalf("round failed: %v", err)
	}

	var kvs int
	for _, m := range tr.sent {
		kvs += len(m.ServiceInfo)
	}
	t.Logf("messages sent: %d, KVs sent: %d, exchange done: %t", len(tr.sent), kvs, done)
	if done && kvs == 0 {
		t.Fatalf("the exchange is done and the service info written after the yield was never sent (first message: %v)", tr.sent[0])
	}
}
