// Demonstration for D1: TO0Server.acceptOwner does not verify the COSE
// signature of the to1d blob against the voucher's current owner key.

package fdo

import (
	"bytes"
	"context"
	"crypto"
	"crypto/ecdsa"
	"crypto/elliptic"
	"crypto/rand"
	"crypto/x509"
	"encoding/pem"
	"os"
	"path/filepath"
	"testing"
	"time"

	"github.com/fido-device-onboard/go-fdo/cbor"
	"github.com/fido-device-onboard/go-fdo/cose"
	"github.com/fido-device-onboard/go-fdo/protocol"
)

type d1Session struct{ nonce protocol.Nonce }

func (s *d1Session) SetTO0SignNonce(_ context.Context, n protocol.Nonce) error {
	s.nonce = n
	return nil
}
func (s *d1Session) TO0SignNonce(context.Context) (protocol.Nonce, error) { return s.nonce, nil }

type d1RVBlobs struct{ sets int }

func (s *d1RVBlobs) SetRVBlob(context.Context, *Voucher, *cose.Sign1[protocol.To1d, []byte], time.Time) error {
	s.sets++
	return nil
}
func (s *d1RVBlobs) RVBlob(context.Context, protocol.GUID) (*cose.Sign1[protocol.To1d, []byte], *Voucher, error) {
	return nil, nil, ErrNotFound
}

func d1PEM(t *testing.T, basename string) []byte {
	t.Helper()
	b, err := os.ReadFile(filepath.Join("testdata", basename))
	if err != nil {
		t.Fatalf("error reading test data: %v", err)
	}
	blk, _ := pem.Decode(b)
	if blk == nil {
		t.Fatalf("%s contained invalid PEM data", basename)
	}
	return blk.Bytes
}

// d1ExtendedVoucher returns the test voucher extended to a freshly generated
// owner key.
func d1ExtendedVoucher(t *testing.T) (*Voucher, crypto.Signer) {
	t.Helper()
	var ov Voucher
	if err := cbor.Unmarshal(d1PEM(t, "ov.pem"), &ov); err != nil {
		t.Fatalf("error parsing voucher test data: %v", err)
	}
	mfgKey, err := x509.ParseECPrivateKey(d1PEM(t, "mfg_key.pem"))
	if err != nil {
		t.Fatalf("error parsing manufacturer key: %v", err)
	}
	ownerKey, err := ecdsa.GenerateKey(elliptic.P384(), rand.Reader)
	if err != nil {
		t.Fatalf("error generating owner key: %v", err)
	}
	extended, err := ExtendVoucher(&ov, mfgKey, &ownerKey.PublicKey, nil)
	if err != nil {
		t.Fatalf("error extending voucher: %v", err)
	}
	if err := extended.VerifyEntries(); err != nil {
		t.Fatalf("extended voucher must be valid: %v", err)
	}
	return extended, ownerKey
}

// d1OwnerSign runs TO0.Hello against the server and returns an encoded
// TO0.OwnerSign message whose to1d is signed by signer.
func d1OwnerSign(t *testing.T, s *TO0Server, ov *Voucher, signer crypto.Signer) []byte {
	t.Helper()

	var hello bytes.Buffer
	if err := cbor.NewEncoder(&hello).Encode(struct{}{}); err != nil {
		t.Fatal(err)
	}
	typ, resp := s.Respond(context.Background(), protocol.TO0HelloMsgType, &hello)
	if typ != protocol.TO0HelloAckMsgType {
		t.Fatalf("TO0.Hello: expected response type 21, got %d: %v", typ, resp)
	}
	nonce := resp.(*to0Ack).NonceTO0Sign

	d := to0d{Voucher: *ov, WaitSeconds: 3600, NonceTO0Sign: nonce}
	alg := ov.Entries[0].Payload.Val.PreviousHash.Algorithm
	h := alg.HashFunc().New()
	if err := cbor.NewEncoder(h).Encode(d); err != nil {
		t.Fatal(err)
	}
	to1d := cose.Sign1[protocol.To1d, []byte]{Payload: cbor.NewByteWrap(protocol.To1d{
		RV: []protocol.RvTO2Addr{{
			DNSAddress:        func() *string { s := "attacker.example.com"; return &s }(),
			Port:              8043,
			TransportProtocol: protocol.HTTPSTransport,
		}},
		To0dHash: protocol.Hash{Algorithm: alg, Value: h.Sum(nil)},
	})}
	if err := to1d.Sign(signer, nil, nil, nil); err != nil {
		t.Fatalf("error signing to1d: %v", err)
	}

	var msg bytes.Buffer
	if err := cbor.NewEncoder(&msg).Encode(ownerSign{To0d: *cbor.NewBstr(d), To1d: *to1d.Tag()}); err != nil {
		t.Fatal(err)
	}
	return msg.Bytes()
}

// A stranger who merely holds a copy of a valid, extended voucher (vouchers
// are not secret) signs the to1d with its own key. The rendezvous server must
// reject this, because only the current owner may register a rendezvous blob.
func TestD1StrangerSignedTo1dRejected(t *testing.T) {
	ov, _ := d1ExtendedVoucher(t)
	stranger, err := ecdsa.GenerateKey(elliptic.P384(), rand.Reader)
	if err != nil {
		t.Fatal(err)
	}

	blobs := new(d1RVBlobs)
	s := &TO0Server{Session: new(d1Session), RVBlobs: blobs}
	msg := d1OwnerSign(t, s, ov, stranger)

	typ, resp := s.Respond(context.Background(), protocol.TO0OwnerSignMsgType, bytes.NewReader(msg))
	if typ != protocol.ErrorMsgType {
		t.Errorf("to1d signed by a stranger: expected error response (255), got type %d: %+v", typ, resp)
	}
	if blobs.sets != 0 {
		t.Errorf("to1d signed by a stranger: rendezvous blob was stored (%d SetRVBlob calls)", blobs.sets)
	}
}

// Control: a to1d signed by the voucher's current owner key is accepted.
func TestD1OwnerSignedTo1dAccepted(t *testing.T) {
	ov, ownerKey := d1ExtendedVoucher(t)

	blobs := new(d1RVBlobs)
	s := &TO0Server{Session: new(d1Session), RVBlobs: blobs}
	msg := d1OwnerSign(t, s, ov, ownerKey)

	typ, resp := s.Respond(context.Background(), protocol.TO0OwnerSignMsgType, bytes.NewReader(msg))
	if typ != protocol.TO0AcceptOwnerMsgType {
		t.Fatalf("to1d signed by owner: expected response type 23, got %d: %+v", typ, resp)
	}
	if blobs.sets != 1 {
		t.Errorf("to1d signed by owner: expected 1 SetRVBlob call, got %d", blobs.sets)
	}
}
