// SPDX-FileCopyrightText: (C) 2024 Intel Corporation
// SPDX-License-Identifier: Apache 2.0

package cose

import (
	"crypto/ecdsa"
	"crypto/elliptic"
	"crypto/rand"
	"testing"

	"github.com/fido-device-onboard/go-fdo/cbor"
)

// TestD15bVerifyUnknownSignatureAlgorithm checks that verifying a COSE_Sign1
// received from a peer with an unregistered signature algorithm in its
// protected header returns an error instead of panicking.
func TestD15bVerifyUnknownSignatureAlgorithm(t *testing.T) {
	key, err := ecdsa.GenerateKey(elliptic.P256(), rand.Reader)
	if err != nil {
		t.Fatal(err)
	}
	s1 := Sign1[[]byte, []byte]{Payload: cbor.NewByteWrap([]byte("payload"))}
	if err := s1.Sign(key, nil, nil, nil); err != nil {
		t.Fatal(err)
	}
	if ok, err := s1.Verify(key.Public(), nil, nil); err != nil || !ok {
		t.Fatalf("valid signature did not verify: %v", err)
	}

	// Replace the algorithm and round trip through CBOR as if received
	s1.Protected[AlgLabel] = int64(99)
	data, err := cbor.Marshal(s1)
	if err != nil {
		t.Fatal(err)
	}
	var received Sign1[[]byte, []byte]
	if err := cbor.Unmarshal(data, &received); err != nil {
		t.Fatal(err)
	}

	defer func() {
		if r := recover(); r != nil {
			t.Fatalf("Verify panicked: %v", r)
		}
	}()
	if ok, err := received.Verify(key.Public(), nil, nil); err == nil || ok {
		t.Fatalf("expected an error for an unknown signature algorithm, got ok=%t", ok)
	}
}
