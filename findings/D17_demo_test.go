// Demonstration for D17: Respond returns (0, nil) for a message type which is
// not a request message of the protocol, instead of an error message (255).
//
// Such message types do reach Respond: the HTTP handler routes by protocol
// (protocol.Of), so e.g. POST /fdo/101/msg/61 is passed to the TO2 responder
// and is answered with "200 OK, Message-Type: 0" and a CBOR null body.

package fdo

import (
	"bytes"
	"context"
	"fmt"
	"testing"

	"github.com/fido-device-onboard/go-fdo/protocol"
)

func d17ExpectErrorMsg(t *testing.T, r protocol.Responder, msgType uint8) {
	t.Helper()

	// Empty CBOR array as message body
	respType, resp := r.Respond(context.Background(), msgType, bytes.NewReader([]byte{0x80}))
	if respType != protocol.ErrorMsgType {
		t.Fatalf("message type %d: expected error response (255), got type %d: %#v", msgType, respType, resp)
	}
	errMsg, ok := resp.(*protocol.ErrorMessage)
	if !ok {
		t.Fatalf("message type %d: expected response of type *protocol.ErrorMessage, got %T", msgType, resp)
	}
	if errMsg.PrevMsgType != msgType {
		t.Errorf("message type %d: expected error message to have previous message type %d, got %d", msgType, msgType, errMsg.PrevMsgType)
	}
	if errMsg.Code == 0 || errMsg.ErrString == "" {
		t.Errorf("message type %d: expected error message to have a code and a string, got %+v", msgType, errMsg)
	}
}

// The defect as reported: TO2 server
func TestD17TO2RespondUnhandledMsgType(t *testing.T) {
	for _, msgType := range []uint8{
		protocol.TO2ProveOVHdrMsgType,  // 61
		protocol.TO2OVNextEntryMsgType, // 63
		protocol.TO2Done2MsgType,       // 71
		0,
	} {
		t.Run(fmt.Sprintf("msgType=%d", msgType), func(t *testing.T) {
			d17ExpectErrorMsg(t, &TO2Server{}, msgType)
		})
	}
}

// The DI, TO0 and TO1 servers share the same switch without default case.
func TestD17OtherServersRespondUnhandledMsgType(t *testing.T) {
	t.Run("DI", func(t *testing.T) {
		d17ExpectErrorMsg(t, &DIServer[struct{}]{}, protocol.DISetCredentialsMsgType) // 11
	})
	t.Run("TO0", func(t *testing.T) {
		d17ExpectErrorMsg(t, &TO0Server{}, protocol.TO0HelloAckMsgType) // 21
	})
	t.Run("TO1", func(t *testing.T) {
		d17ExpectErrorMsg(t, &TO1Server{}, protocol.TO1HelloRVAckMsgType) // 31
	})
}
