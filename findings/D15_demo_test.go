// SPDX-FileCopyrightText: (C) 2024 Intel Corporation
// SPDX-License-Identifier: Apache 2.0

package fdo

import (
	"bytes"
	"context"
	"crypto/ecdsa"
	"crypto/elliptic"
	"crypto/rand"
	"crypto/sha256"
	"crypto/x509"
	"crypto/x509/pkix"
	"io"
	"math/big"
	"testing"
	"time"

	"github.com/fido-device-onboard/go-fdo/cbor"
	"github.com/fido-device-onboard/go-fdo/cose"
	"github.com/fido-device-onboard/go-fdo/kex"
	"github.com/fido-device-onboard/go-fdo/protocol"
)

// An algorithm identifier which is not a valid FDO hashtype
const d15BadAlg protocol.HashAlg = 99

// d15Voucher creates a syntactically valid voucher (not extended)
func d15Voucher(t *testing.T) (*Voucher, *ecdsa.PrivateKey) {
	t.Helper()

	mfgKey, err := ecdsa.GenerateKey(elliptic.P256(), rand.Reader)
	if err != nil {
		t.Fatal(err)
	}
	deviceKey, err := ecdsa.GenerateKey(elliptic.P256(), rand.Reader)
	if err != nil {
		t.Fatal(err)
	}
	template := &x509.Certificate{
		SerialNumber: big.NewInt(1),
		Subject:      pkix.Name{CommonName: "D15 device"},
		NotBefore:    time.Now().Add(-time.Hour),
		NotAfter:     time.Now().Add(time.Hour),
	}
	der, err := x509.CreateCertificate(rand.Reader, template, template, deviceKey.Public(), mfgKey)
	if err != nil {
		t.Fatal(err)
	}
	cert, err := x509.ParseCertificate(der)
	if err != nil {
		t.Fatal(err)
	}
	mfgPubKey, err := protocol.NewPublicKey(protocol.Secp256r1KeyType, &mfgKey.PublicKey, false)
	if err != nil {
		t.Fatal(err)
	}
	certHash := sha256.Sum256(cert.Raw)

	return &Voucher{
		Version: 101,
		Header: *cbor.NewBstr(VoucherHeader{
			Version:         101,
			GUID:            protocol.GUID{0xd, 0x1, 0x5},
			DeviceInfo:      "D15",
			ManufacturerKey: *mfgPubKey,
			CertChainHash:   &protocol.Hash{Algorithm: protocol.Sha256Hash, Value: certHash[:]},
		}),
		Hmac:      protocol.Hmac{Algorithm: protocol.HmacSha256Hash, Value: make([]byte, 32)},
		CertChain: &[]*cbor.X509Certificate{(*cbor.X509Certificate)(cert)},
	}, deviceKey
}

// TestD15VerifyCertChainHashUnknownAlg checks that a voucher received from a
// peer with an unknown cert chain hash algorithm fails verification with an
// error instead of panicking.
func TestD15VerifyCertChainHashUnknownAlg(t *testing.T) {
	ov, _ := d15Voucher(t)
	if err := ov.VerifyCertChainHash(); err != nil {
		t.Fatalf("valid voucher: %v", err)
	}

	ov.Header.Val.CertChainHash.Algorithm = d15BadAlg

	// Round trip through CBOR to show that the value may arrive over the wire
	data, err := cbor.Marshal(ov)
	if err != nil {
		t.Fatal(err)
	}
	var decoded Voucher
	if err := cbor.Unmarshal(data, &decoded); err != nil {
		t.Fatalf("voucher with unknown hash algorithm did not decode: %v", err)
	}

	defer func() {
		if r := recover(); r != nil {
			t.Fatalf("VerifyCertChainHash panicked: %v", r)
		}
	}()
	if err := decoded.VerifyCertChainHash(); err == nil {
		t.Fatal("expected an error for an unknown hash algorithm")
	}
}

// TestD15TO0OwnerSignUnknownAlg checks that a TO0.OwnerSign message with an
// unknown to0d hash algorithm results in an error message response instead of
// crashing the rendezvous server.
func TestD15TO0OwnerSignUnknownAlg(t *testing.T) {
	ov, _ := d15Voucher(t)

	var msg ownerSign
	msg.To0d.Val = to0d{Voucher: *ov, WaitSeconds: 60}
	msg.To1d.Payload = cbor.NewByteWrap(protocol.To1d{
		RV:       []protocol.RvTO2Addr{},
		To0dHash: protocol.Hash{Algorithm: d15BadAlg, Value: make([]byte, 32)},
	})
	msg.To1d.Signature = make([]byte, 64)
	body, err := cbor.Marshal(msg)
	if err != nil {
		t.Fatal(err)
	}

	defer func() {
		if r := recover(); r != nil {
			t.Fatalf("TO0Server.Respond panicked: %v", r)
		}
	}()
	respType, resp := (&TO0Server{}).Respond(context.Background(), protocol.TO0OwnerSignMsgType, bytes.NewReader(body))
	if respType != protocol.ErrorMsgType {
		t.Fatalf("expected error message response, got type %d: %+v", respType, resp)
	}
	t.Logf("got expected error response: %+v", resp)
}

type d15Transport struct {
	respType uint8
	resp     []byte
}

func (tr *d15Transport) Send(context.Context, uint8, any, kex.Session) (uint8, io.ReadCloser, error) {
	return tr.respType, io.NopCloser(bytes.NewReader(tr.resp)), nil
}

// TestD15TO2ProveOVHdrUnknownAlg checks that a device receiving a
// TO2.ProveOVHdr message with an unknown HelloDeviceHash algorithm from an
// owner service fails with an error instead of panicking.
func TestD15TO2ProveOVHdrUnknownAlg(t *testing.T) {
	ov, deviceKey := d15Voucher(t)

	var proof cose.Sign1Tag[ovhProof, []byte]
	proof.Payload = cbor.NewByteWrap(ovhProof{
		OVH:             ov.Header,
		NumOVEntries:    1,
		OVHHmac:         ov.Hmac,
		SigInfoB:        sigInfo{Type: cose.ES256Alg},
		KeyExchangeA:    []byte{0x00},
		HelloDeviceHash: protocol.Hash{Algorithm: d15BadAlg, Value: make([]byte, 32)},
	})
	proof.Signature = make([]byte, 64)
	body, err := cbor.Marshal(proof)
	if err != nil {
		t.Fatal(err)
	}

	defer func() {
		if r := recover(); r != nil {
			t.Fatalf("sendHelloDevice panicked: %v", r)
		}
	}()
	_, _, _, err = sendHelloDevice(
		contextWithErrMsg(context.Background()),
		&d15Transport{respType: protocol.TO2ProveOVHdrMsgType, resp: body},
		&TO2Config{
			Cred:        DeviceCredential{GUID: ov.Header.Val.GUID},
			Key:         deviceKey,
			KeyExchange: kex.ECDH256Suite,
			CipherSuite: kex.A128GcmCipher,
		},
	)
	if err == nil {
		t.Fatal("expected an error for an unknown hash algorithm")
	}
	t.Logf("got expected error: %v", err)
}
