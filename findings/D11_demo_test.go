// SPDX-FileCopyrightText: (C) 2024 Intel Corporation
// SPDX-License-Identifier: Apache 2.0

package serviceinfo

import (
	"bytes"
	"errors"
	"fmt"
	"io"
	"testing"
)

// TestD11SizeTooSmallForKey checks that when the size budget is too small to
// fit the key of the pending ServiceInfo, ReadChunk returns ErrSizeTooSmall
// without consuming or dropping the pending ServiceInfo, so that it can be
// read with a larger budget in the next message.
func TestD11SizeTooSmallForKey(t *testing.T) {
	const moduleName, messageName = "mymodule", "mymessage"
	const key = moduleName + ":" + messageName // 19 bytes CBOR encoded
	val := []byte{0x01, 0x02, 0x03}

	// Smallest size which fits the KV array header, the key, the value header,
	// and one byte of the value
	const minSize = 1 + 19 + 1 + 1

	for _, size := range []uint16{0, 1, 3, 6, 7, 8, 10, 16, 20, 21, 22, 23, 24, 25, 26, 27} {
		t.Run(fmt.Sprintf("size=%d", size), func(t *testing.T) {
			r, w := NewChunkOutPipe(4)
			defer func() { _ = r.Close() }()

			if err := w.NextServiceInfo(moduleName, messageName); err != nil {
				t.Fatal(err)
			}
			if _, err := w.Write(val); err != nil {
				t.Fatal(err)
			}
			if err := w.Close(); err != nil {
				t.Fatal(err)
			}

			// First read with the budget left in the current message
			var got []byte
			kv, err := r.ReadChunk(size)
			switch {
			case size < minSize:
				if !errors.Is(err, ErrSizeTooSmall) {
					t.Errorf("expected ErrSizeTooSmall, got kv=%v, err=%v", kv, err)
				}
			case err != nil:
				t.Fatalf("expected chunk to fit, got error: %v", err)
			default:
				if kv.Key != key {
					t.Fatalf("expected key %q, got %q", key, kv.Key)
				}
				if kv.Size() > size {
					t.Fatalf("chunk of size %d exceeds %d", kv.Size(), size)
				}
				got = append(got, kv.Val...)
			}

			// Full budget is available in the following messages
			for {
				kv, err := r.ReadChunk(1300)
				if errors.Is(err, io.EOF) {
					break
				}
				if err != nil {
					t.Fatalf("unexpected error: %v", err)
				}
				if kv.Key != key {
					t.Fatalf("expected key %q, got %q", key, kv.Key)
				}
				got = append(got, kv.Val...)
			}
			if !bytes.Equal(got, val) {
				t.Fatalf("service info was lost: expected value % x, got % x", val, got)
			}
		})
	}
}
