// Demonstration for finding D28 (C10): DI.AppStart with a null device info panics a
// DI server that signs device certificates with custom.SignDeviceCertificate.
//
// DIServer.setCredentials accepts a null info ("Null info is valid") and passes a
// nil *T to the SignDeviceCertificate callback. The callback this library ships
// for the purpose, custom.SignDeviceCertificate, dereferences it without a test:
// the two-byte message 81 f6 ([null]) sent as DI.AppStart (type 10) by any peer
// panics the manufacturing server instead of being answered with an error message.
//
// Copy into the repository root (package fdo_test) and run:
//
//	go test -vet=off -count=1 -run TestD28NullAppStartInfo .
package fdo_test

import (
	"bytes"
	"context"
	"crypto/ecdsa"
	"crypto/elliptic"
	"crypto/rand"
	"crypto/x509"
	"crypto/x509/pkix"
	"math/big"
	"testing"
	"time"

	"github.com/fido-device-onboard/go-fdo"
	"github.com/fido-device-onboard/go-fdo/custom"
	"github.com/fido-device-onboard/go-fdo/protocol"
)

func TestD28NullAppStartInfo(t *testing.T) {
	caKey, err := ecdsa.GenerateKey(elliptic.P256(), rand.Reader)
	if err != nil {
		t.Fatal(err)
	}
	tmpl := &x509.Certificate{
		SerialNumber:          big.NewInt(1),
		Subject:               pkix.Name{CommonName: "device CA"},
		NotBefore:             time.Now(),
		NotAfter:              time.Now().Add(time.Hour),
		IsCA:                  true,
		BasicConstraintsValid: true,
	}
	der, err := x509.CreateCertificate(rand.Reader, tmpl, tmpl, caKey.Public(), caKey)
	if err != nil {
		t.Fatal(err)
	}
	caCert, err := x509.ParseCertificate(der)
	if err != nil {
		t.Fatal(err)
	}

	s := &fdo.DIServer[custom.DeviceMfgInfo]{
		SignDeviceCertificate: custom.SignDeviceCertificate(caKey, []*x509.Certificate{caCert}),
	}

	var respType uint8
	func() {
		defer func() {
			if r := recover(); r != nil {
				t.Fatalf("DI responder panicked on AppStart [null]: %v", r)
			}
		}()
		respType, _ = s.Respond(context.Background(), protocol.DIAppStartMsgType, bytes.NewReader([]byte{0x81, 0xf6}))
	}()
	if respType != protocol.ErrorMsgType {
		t.Fatalf("expected an error message (255), got message type %d", respType)
	}
}
