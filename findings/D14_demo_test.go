// SPDX-FileCopyrightText: (C) 2024 Intel Corporation
// SPDX-License-Identifier: Apache 2.0

package fdo

import (
	"crypto/ecdsa"
	"crypto/elliptic"
	"crypto/rand"
	"crypto/rsa"
	"testing"

	"github.com/fido-device-onboard/go-fdo/cbor"
	"github.com/fido-device-onboard/go-fdo/protocol"
)

// TestD14ExtendVoucherUnsupportedKeySize checks that extending a voucher with
// an RSA owner key of a size not supported by FDO returns an error rather than
// panicking.
func TestD14ExtendVoucherUnsupportedKeySize(t *testing.T) {
	for _, test := range []struct {
		name        string
		deviceCurve elliptic.Curve
		rsaBits     int
	}{
		{name: "P-384 device, RSA 2400 owner", deviceCurve: elliptic.P384(), rsaBits: 2400},
		{name: "P-384 device, RSA 1024 owner", deviceCurve: elliptic.P384(), rsaBits: 1024},
		{name: "P-256 device, RSA 1024 owner", deviceCurve: elliptic.P256(), rsaBits: 1024},
	} {
		t.Run(test.name, func(t *testing.T) {
			deviceKey, err := ecdsa.GenerateKey(test.deviceCurve, rand.Reader)
			if err != nil {
				t.Fatal(err)
			}
			ownerKey, err := rsa.GenerateKey(rand.Reader, test.rsaBits)
			if err != nil {
				t.Fatal(err)
			}
			nextOwnerKey, err := rsa.GenerateKey(rand.Reader, test.rsaBits)
			if err != nil {
				t.Fatal(err)
			}
			mfgPubKey, err := protocol.NewPublicKey(protocol.RsaPkcsKeyType, &ownerKey.PublicKey, false)
			if err != nil {
				t.Fatal(err)
			}

			ov := &Voucher{
				Version: 101,
				Header: *cbor.NewBstr(VoucherHeader{
					Version:         101,
					DeviceInfo:      "D14",
					ManufacturerKey: *mfgPubKey,
				}),
				CertChain: &[]*cbor.X509Certificate{
					{PublicKey: deviceKey.Public()},
				},
			}

			defer func() {
				if r := recover(); r != nil {
					t.Fatalf("ExtendVoucher panicked: %v", r)
				}
			}()
			if _, err := ExtendVoucher(ov, ownerKey, &nextOwnerKey.PublicKey, nil); err == nil {
				t.Fatal("expected an error extending a voucher with an unsupported key size")
			} else {
				t.Logf("got expected error: %v", err)
			}
		})
	}
}

// TestD14HashAlgForUnsupportedSize checks the helper used by DI, TO2, and
// voucher extension directly.
func TestD14HashAlgForUnsupportedSize(t *testing.T) {
	deviceKey, err := ecdsa.GenerateKey(elliptic.P384(), rand.Reader)
	if err != nil {
		t.Fatal(err)
	}
	for _, bits := range []int{1024, 2400} {
		ownerKey, err := rsa.GenerateKey(rand.Reader, bits)
		if err != nil {
			t.Fatal(err)
		}
		func() {
			defer func() {
				if r := recover(); r != nil {
					t.Errorf("RSA %d: hashAlgFor panicked: %v", bits, r)
				}
			}()
			if alg, err := hashAlgFor(deviceKey.Public(), ownerKey.Public()); err == nil {
				t.Errorf("RSA %d: expected error, got algorithm %s", bits, alg)
			}
		}()
	}

	// Supported combinations still work
	for _, bits := range []int{2048, 3072} {
		ownerKey, err := rsa.GenerateKey(rand.Reader, bits)
		if err != nil {
			t.Fatal(err)
		}
		if _, err := hashAlgFor(deviceKey.Public(), ownerKey.Public()); err != nil {
			t.Errorf("RSA %d: unexpected error: %v", bits, err)
		}
	}
}
