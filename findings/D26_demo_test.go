// Demonstration for finding D26 (C04): ExtendVoucher mutates the voucher it extends.
//
// The result of ExtendVoucher shares the Entries backing array of its input
// (Voucher.shallowClone copies the slice header only) and appends to it. When
// the input's Entries slice has spare capacity - which is what append leaves
// behind after earlier extensions - extending the same voucher twice writes
// both new entries into the same array slot: the voucher returned by the first
// call silently changes its last entry to the one made for the second owner and
// no longer verifies.
//
// Copy into the repository root (package fdo_test) and run:
//
//	go test -vet=off -count=1 -run TestD26ExtendVoucherDoesNotMutate .
package fdo_test

import (
	"crypto"
	"crypto/ecdsa"
	"crypto/elliptic"
	"crypto/rand"
	"crypto/x509"
	"encoding/pem"
	"os"
	"testing"

	"github.com/fido-device-onboard/go-fdo"
	"github.com/fido-device-onboard/go-fdo/cbor"
)

func TestD26ExtendVoucherDoesNotMutate(t *testing.T) {
	b, err := os.ReadFile("testdata/ov.pem")
	if err != nil {
		t.Fatal(err)
	}
	blk, _ := pem.Decode(b)
	var ov0 fdo.Voucher
	if err := cbor.Unmarshal(blk.Bytes, &ov0); err != nil {
		t.Fatal(err)
	}
	kb, err := os.ReadFile("testdata/mfg_key.pem")
	if err != nil {
		t.Fatal(err)
	}
	kblk, _ := pem.Decode(kb)
	mfgKey, err := x509.ParseECPrivateKey(kblk.Bytes)
	if err != nil {
		t.Fatal(err)
	}
	newKey := func() *ecdsa.PrivateKey {
		k, err := ecdsa.GenerateKey(elliptic.P384(), rand.Reader)
		if err != nil {
			t.Fatal(err)
		}
		return k
	}

	// Build a chain Mfg -> A -> B -> C by successive extension (each step appends
	// to the previous result, so the Entries slice ends up with spare capacity).
	var signer crypto.Signer = mfgKey
	cur := &ov0
	var last *ecdsa.PrivateKey
	for i := 0; i < 3; i++ {
		next := newKey()
		xv, err := fdo.ExtendVoucher(cur, signer, &next.PublicKey, nil)
		if err != nil {
			t.Fatalf("extension %d: %v", i, err)
		}
		cur, signer, last = xv, next, next
	}
	if len(cur.Entries) == cap(cur.Entries) {
		t.Skipf("no spare capacity (len=cap=%d): the aliasing cannot show with this allocation pattern", len(cur.Entries))
	}

	// The current owner (C) extends the SAME voucher to two different parties.
	d, e := newKey(), newKey()
	toD, err := fdo.ExtendVoucher(cur, last, &d.PublicKey, nil)
	if err != nil {
		t.Fatal(err)
	}
	if err := toD.VerifyEntries(); err != nil {
		t.Fatalf("voucher extended to D must verify: %v", err)
	}
	keyBefore, _ := toD.OwnerPublicKey()
	toE, err := fdo.ExtendVoucher(cur, last, &e.PublicKey, nil)
	if err != nil {
		t.Fatal(err)
	}
	if err := toE.VerifyEntries(); err != nil {
		t.Fatalf("voucher extended to E must verify: %v", err)
	}

	// The voucher handed to D must not have changed.
	keyAfter, err := toD.OwnerPublicKey()
	if err != nil {
		t.Fatal(err)
	}
	if !keyBefore.(*ecdsa.PublicKey).Equal(keyAfter) {
		t.Errorf("the voucher extended to D now names another owner: its last entry was overwritten by the extension to E")
	}
	if !d.PublicKey.Equal(keyAfter) {
		t.Errorf("owner of the voucher extended to D is no longer D")
	}
	if err := toD.VerifyEntries(); err != nil {
		t.Errorf("the voucher extended to D no longer verifies after the same input was extended to E: %v", err)
	}
}
