package cose

import (
	"bytes"
	"crypto/aes"
	"crypto/cipher"
	"crypto/rand"
	"fmt"
	"strings"
	"testing"

	"github.com/fido-device-onboard/go-fdo/cbor"
)

func d7Decrypt(c Crypter, ciphertext, ad []byte, unprotected HeaderParser) (pt []byte, err error) {
	defer func() {
		if r := recover(); r != nil {
			err = fmt.Errorf("PANIC: %v", r)
		}
	}()
	return c.Decrypt(rand.Reader, ciphertext, ad, unprotected)
}

func d7ExpectError(t *testing.T, name string, err error) {
	t.Helper()
	if err == nil {
		t.Errorf("%s: expected an error", name)
	} else if strings.HasPrefix(err.Error(), "PANIC:") {
		t.Errorf("%s: %v", name, err)
	} else {
		t.Logf("%s: got error: %v", name, err)
	}
}

var d7BadIVs = map[string][]byte{
	"empty IV":   {},
	"3-byte IV":  {1, 2, 3},
	"17-byte IV": make([]byte, 17),
	"32-byte IV": make([]byte, 32),
}

func TestD7AEADBadNonceLength(t *testing.T) {
	c, err := aesGcm(make([]byte, 16))
	if err != nil {
		t.Fatal(err)
	}
	ciphertext, unprotected, err := c.Encrypt(rand.Reader, []byte("Hello World!"), []byte{})
	if err != nil {
		t.Fatal(err)
	}
	for name, iv := range d7BadIVs {
		_, err := d7Decrypt(c, bytes.Clone(ciphertext), []byte{}, HeaderMap{IvLabel: iv})
		d7ExpectError(t, name, err)
	}
	if pt, err := d7Decrypt(c, ciphertext, []byte{}, unprotected); err != nil || string(pt) != "Hello World!" {
		t.Errorf("good IV: %q, %v", pt, err)
	}
}

func TestD7CTRBadIVLength(t *testing.T) {
	c, err := aesCtr(make([]byte, 16))
	if err != nil {
		t.Fatal(err)
	}
	ciphertext, unprotected, err := c.Encrypt(rand.Reader, []byte("Hello World!"), nil)
	if err != nil {
		t.Fatal(err)
	}
	for name, iv := range d7BadIVs {
		_, err := d7Decrypt(c, bytes.Clone(ciphertext), nil, HeaderMap{IvLabel: iv})
		d7ExpectError(t, name, err)
	}
	if pt, err := d7Decrypt(c, ciphertext, nil, unprotected); err != nil || string(pt) != "Hello World!" {
		t.Errorf("good IV: %q, %v", pt, err)
	}
}

func TestD7CBCBadIVLength(t *testing.T) {
	c, err := aesCbc(make([]byte, 16))
	if err != nil {
		t.Fatal(err)
	}
	ciphertext, unprotected, err := c.Encrypt(rand.Reader, []byte("Hello World!"), nil)
	if err != nil {
		t.Fatal(err)
	}
	for name, iv := range d7BadIVs {
		_, err := d7Decrypt(c, bytes.Clone(ciphertext), nil, HeaderMap{IvLabel: iv})
		d7ExpectError(t, name, err)
	}
	if pt, err := d7Decrypt(c, ciphertext, nil, unprotected); err != nil || string(pt) != "Hello World!" {
		t.Errorf("good IV: %q, %v", pt, err)
	}
}

func TestD7CBCBadCiphertextLength(t *testing.T) {
	c, err := aesCbc(make([]byte, 16))
	if err != nil {
		t.Fatal(err)
	}
	unprotected := HeaderMap{IvLabel: make([]byte, 16)}
	for _, n := range []int{0, 1, 15, 17, 31} {
		_, err := d7Decrypt(c, make([]byte, n), nil, unprotected)
		d7ExpectError(t, fmt.Sprintf("%d-byte ciphertext", n), err)
	}
}

func TestD7CBCBadPadding(t *testing.T) {
	key, iv := make([]byte, 16), make([]byte, 16)
	c, err := aesCbc(key)
	if err != nil {
		t.Fatal(err)
	}
	b, err := aes.NewCipher(key)
	if err != nil {
		t.Fatal(err)
	}
	encrypt := func(plaintext []byte) []byte {
		ciphertext := make([]byte, len(plaintext))
		cipher.NewCBCEncrypter(b, iv).CryptBlocks(ciphertext, plaintext)
		return ciphertext
	}
	unprotected := HeaderMap{IvLabel: iv}

	// Last byte claims more padding than there is data
	_, err = d7Decrypt(c, encrypt(bytes.Repeat([]byte{0xff}, 16)), nil, unprotected)
	d7ExpectError(t, "pad size 255 in 16 bytes", err)
	_, err = d7Decrypt(c, encrypt(bytes.Repeat([]byte{17}, 16)), nil, unprotected)
	d7ExpectError(t, "pad size 17 in 16 bytes", err)

	// Valid padding still works, including a full block of padding
	if pt, err := d7Decrypt(c, encrypt(bytes.Repeat([]byte{16}, 16)), nil, unprotected); err != nil || len(pt) != 0 {
		t.Errorf("full block of padding: %x, %v", pt, err)
	}
	if pt, err := d7Decrypt(c, encrypt(append([]byte("0123456789abcde"), 1)), nil, unprotected); err != nil || string(pt) != "0123456789abcde" {
		t.Errorf("one byte of padding: %q, %v", pt, err)
	}
}

// A received COSE_Encrypt0 with a short IV must be an error from Decrypt.
func TestD7Encrypt0ShortIV(t *testing.T) {
	for _, alg := range []EncryptAlgorithm{A128GCM, A256GCM, A128CTR, A256CTR, A128CBC, A256CBC} {
		t.Run(fmt.Sprintf("alg %d", alg), func(t *testing.T) {
			key := make([]byte, alg.KeySize())
			var e0 Encrypt0[[]byte, []byte]
			if err := e0.Encrypt(alg, key, []byte("Hello World!"), nil); err != nil {
				t.Fatal(err)
			}
			e0.Unprotected[IvLabel] = []byte{1, 2, 3}

			data, err := cbor.Marshal(e0.Tag())
			if err != nil {
				t.Fatal(err)
			}
			var got Encrypt0Tag[[]byte, []byte]
			if err := cbor.Unmarshal(data, &got); err != nil {
				t.Fatal(err)
			}

			err = func() (err error) {
				defer func() {
					if r := recover(); r != nil {
						err = fmt.Errorf("PANIC: %v", r)
					}
				}()
				_, err = got.Decrypt(alg, key, nil)
				return err
			}()
			d7ExpectError(t, "3-byte IV", err)
		})
	}
}
