// SPDX-FileCopyrightText: (C) 2024 Intel Corporation
// SPDX-License-Identifier: Apache 2.0

package serviceinfo

import (
	"bytes"
	"io"
	"testing"
)

// TestD13FirstChunkEmptyKey checks that when the very first chunk written has
// an empty key, it is treated as the start of a new ServiceInfo rather than as
// a continuation of a (nonexistent) previous one, which dereferenced a nil
// pipe writer.
func TestD13FirstChunkEmptyKey(t *testing.T) {
	r, w := NewChunkInPipe(4)

	func() {
		defer func() {
			if p := recover(); p != nil {
				t.Fatalf("WriteChunk panicked: %v", p)
			}
		}()
		if err := w.WriteChunk(&KV{Key: "", Val: []byte{0x01}}); err != nil {
			t.Fatalf("first chunk: %v", err)
		}
		// Same (empty) key: continuation of the same ServiceInfo
		if err := w.WriteChunk(&KV{Key: "", Val: []byte{0x02}}); err != nil {
			t.Fatalf("second chunk: %v", err)
		}
		if err := w.WriteChunk(&KV{Key: "mod:msg", Val: []byte{0x03}}); err != nil {
			t.Fatalf("third chunk: %v", err)
		}
		if err := w.Close(); err != nil {
			t.Fatalf("close: %v", err)
		}
	}()

	for _, expect := range []struct {
		key string
		val []byte
	}{
		{key: "", val: []byte{0x01, 0x02}},
		{key: "mod:msg", val: []byte{0x03}},
	} {
		key, val, ok := r.NextServiceInfo()
		if !ok {
			t.Fatalf("expected service info with key %q", expect.key)
		}
		if key != expect.key {
			t.Errorf("expected key %q, got %q", expect.key, key)
		}
		got, err := io.ReadAll(val)
		if err != nil {
			t.Fatal(err)
		}
		if !bytes.Equal(got, expect.val) {
			t.Errorf("key %q: expected value % x, got % x", expect.key, expect.val, got)
		}
	}
	if _, _, ok := r.NextServiceInfo(); ok {
		t.Error("expected no more service info")
	}
}
