// Package directory: root of the module (github.com/fido-device-onboard/go-fdo),
// i.e. copy this file to /tmp/fixE/D23_demo_test.go and run
//
//	go test -vet=off -count=1 -run 'TestD23' .
//
// D23: an X5CHAIN encoded protocol.PublicKey whose body is the CBOR array
// `[null]` decodes without error into a []*cbor.X509Certificate holding a nil
// pointer. (*PublicKey).parseX5Chain dereferences it (certs[0].PublicKey), so
// PublicKey.Public() and PublicKey.Chain() panic. With `[cert, null]` the key
// parses but Chain() hands a nil certificate to its callers, which panic when
// verifying the chain. Public keys are peer supplied: manufacturer key of a
// voucher header, voucher entry keys, owner key of TO2.ProveOVHdr.

package fdo

import (
	"bytes"
	"context"
	"crypto/ecdsa"
	"crypto/elliptic"
	"crypto/rand"
	"crypto/sha512"
	"crypto/x509"
	"crypto/x509/pkix"
	"encoding/pem"
	"fmt"
	"io"
	"math/big"
	"os"
	"runtime/debug"
	"strings"
	"testing"
	"time"

	"github.com/fido-device-onboard/go-fdo/cbor"
	"github.com/fido-device-onboard/go-fdo/cose"
	"github.com/fido-device-onboard/go-fdo/kex"
	"github.com/fido-device-onboard/go-fdo/protocol"
)

func d23ReadPEM(t *testing.T, path string) []byte {
	t.Helper()
	data, err := os.ReadFile(path)
	if err != nil {
		t.Fatal(err)
	}
	blk, _ := pem.Decode(data)
	if blk == nil {
		t.Fatalf("%s: invalid PEM", path)
	}
	return blk.Bytes
}

// d23Key returns a public key as decoded from the wire encoding
// [SECP384R1, X5CHAIN, body].
func d23Key(t *testing.T, body []byte) *protocol.PublicKey {
	t.Helper()
	wire, err := cbor.Marshal(protocol.PublicKey{
		Type:     protocol.Secp384r1KeyType,
		Encoding: protocol.X5ChainKeyEnc,
		Body:     cbor.RawBytes(body),
	})
	if err != nil {
		t.Fatal(err)
	}
	var key protocol.PublicKey
	if err := cbor.Unmarshal(wire, &key); err != nil {
		t.Fatalf("public key is expected to decode: %v", err)
	}
	return &key
}

// d23CertNull returns the CBOR array [cert, null], where cert is a self-signed
// certificate.
func d23CertNull(t *testing.T) []byte {
	t.Helper()
	key, err := ecdsa.GenerateKey(elliptic.P384(), rand.Reader)
	if err != nil {
		t.Fatal(err)
	}
	template := &x509.Certificate{
		SerialNumber:          big.NewInt(1),
		Subject:               pkix.Name{CommonName: "D23"},
		NotBefore:             time.Now().Add(-time.Hour),
		NotAfter:              time.Now().Add(time.Hour),
		BasicConstraintsValid: true,
		IsCA:                  true,
	}
	der, err := x509.CreateCertificate(rand.Reader, template, template, key.Public(), key)
	if err != nil {
		t.Fatal(err)
	}
	cert, err := x509.ParseCertificate(der)
	if err != nil {
		t.Fatal(err)
	}
	body, err := cbor.Marshal([]*cbor.X509Certificate{(*cbor.X509Certificate)(cert), nil})
	if err != nil {
		t.Fatal(err)
	}
	return body
}

func d23NoPanic(t *testing.T, name string, f func() error) {
	t.Helper()
	defer func() {
		if r := recover(); r != nil {
			t.Errorf("%s panicked: %v\n%s", name, r, debug.Stack())
		}
	}()
	if err := f(); err == nil {
		t.Errorf("%s: expected an error", name)
	} else {
		t.Logf("%s: %v", name, err)
	}
}

func TestD23PublicKeyNullCert(t *testing.T) {
	for _, test := range []struct {
		name string
		body func() []byte
	}{
		{"empty", func() []byte { return []byte{0x80} }},
		{"null", func() []byte { return []byte{0x81, 0xf6} }},
		{"null,null", func() []byte { return []byte{0x82, 0xf6, 0xf6} }},
		{"cert,null", func() []byte { return d23CertNull(t) }},
	} {
		t.Run(test.name, func(t *testing.T) {
			d23NoPanic(t, "Public", func() error { _, err := d23Key(t, test.body()).Public(); return err })
			d23NoPanic(t, "Chain", func() error { _, err := d23Key(t, test.body()).Chain(); return err })
			d23NoPanic(t, "Chain after Public", func() error {
				key := d23Key(t, test.body())
				_, _ = key.Public()
				chain, err := key.Chain()
				if err != nil {
					return err
				}
				for i, cert := range chain {
					if cert == nil {
						t.Errorf("Chain returned no error and certificate %d is nil", i)
					}
				}
				return nil
			})
		})
	}
}

// The manufacturer key of a voucher header.
func TestD23VoucherNullMfgCert(t *testing.T) {
	for _, name := range []string{"null", "cert,null"} {
		t.Run(name, func(t *testing.T) {
			var ov Voucher
			if err := cbor.Unmarshal(d23ReadPEM(t, "testdata/ov.pem"), &ov); err != nil {
				t.Fatalf("error parsing voucher test data: %v", err)
			}
			body := []byte{0x81, 0xf6}
			if name == "cert,null" {
				body = d23CertNull(t)
			}
			ov.Header.Val.ManufacturerKey = *d23Key(t, body)
			wire, err := cbor.Marshal(&ov)
			if err != nil {
				t.Fatal(err)
			}

			decode := func() *Voucher {
				var ov Voucher
				if err := cbor.Unmarshal(wire, &ov); err != nil {
					t.Fatalf("voucher is expected to decode: %v", err)
				}
				return &ov
			}
			d23NoPanic(t, "OwnerPublicKey", func() error { _, err := decode().OwnerPublicKey(); return err })
			d23NoPanic(t, "VerifyEntries", func() error { return decode().VerifyEntries() })
			d23NoPanic(t, "VerifyManufacturerCertChain(nil)", func() error { return decode().VerifyManufacturerCertChain(nil) })
			d23NoPanic(t, "VerifyManufacturerCertChain(roots)", func() error {
				return decode().VerifyManufacturerCertChain(x509.NewCertPool())
			})
			d23NoPanic(t, "VerifyEntries, VerifyManufacturerCertChain(nil)", func() error {
				ov := decode()
				_ = ov.VerifyEntries()
				return ov.VerifyManufacturerCertChain(nil)
			})
		})
	}
}

type d23RVState struct {
	TO0SessionState
	RendezvousBlobPersistentState
}

// Anyone can send TO0.OwnerSign with a voucher whose manufacturer key is
// `[null]` to a rendezvous server. The voucher is used before any signature
// or nonce is verified, so neither a TO0.Hello nor a valid to1d signature are
// needed.
func TestD23TO0OwnerSignNullMfgCert(t *testing.T) {
	var ov Voucher
	if err := cbor.Unmarshal(d23ReadPEM(t, "testdata/ov.pem"), &ov); err != nil {
		t.Fatalf("error parsing voucher test data: %v", err)
	}
	mfgKey, err := x509.ParseECPrivateKey(d23ReadPEM(t, "testdata/mfg_key.pem"))
	if err != nil {
		t.Fatalf("error parsing manufacturer key: %v", err)
	}
	ownerKey, err := ecdsa.GenerateKey(elliptic.P384(), rand.Reader)
	if err != nil {
		t.Fatal(err)
	}
	extended, err := ExtendVoucher(&ov, mfgKey, ownerKey.Public().(*ecdsa.PublicKey), nil)
	if err != nil {
		t.Fatalf("error extending voucher: %v", err)
	}
	extended.Header.Val.ManufacturerKey = *d23Key(t, []byte{0x81, 0xf6})

	to0d := to0d{Voucher: *extended, WaitSeconds: 60}
	to0dHash := sha512.New384()
	if err := cbor.NewEncoder(to0dHash).Encode(to0d); err != nil {
		t.Fatal(err)
	}
	to1d := cose.Sign1[protocol.To1d, []byte]{Payload: cbor.NewByteWrap(protocol.To1d{
		RV:       []protocol.RvTO2Addr{},
		To0dHash: protocol.Hash{Algorithm: protocol.Sha384Hash, Value: to0dHash.Sum(nil)},
	})}
	if err := to1d.Sign(ownerKey, nil, nil, nil); err != nil {
		t.Fatal(err)
	}
	var msg bytes.Buffer
	if err := cbor.NewEncoder(&msg).Encode(ownerSign{To0d: *cbor.NewBstr(to0d), To1d: *to1d.Tag()}); err != nil {
		t.Fatal(err)
	}

	// Session and blob state are not reached (nil interfaces)
	state := &d23RVState{}
	server := &TO0Server{Session: state, RVBlobs: state}

	defer func() {
		if r := recover(); r != nil {
			t.Fatalf("TO0Server.Respond(TO0.OwnerSign) panicked: %v\n%s", r, debug.Stack())
		}
	}()
	respType, resp := server.Respond(context.Background(), protocol.TO0OwnerSignMsgType, &msg)
	if respType != protocol.ErrorMsgType {
		t.Fatalf("expected an error response, got message type %d", respType)
	}
	t.Logf("error response: %v", resp)
	if errMsg, ok := resp.(*protocol.ErrorMessage); !ok || !strings.Contains(errMsg.ErrString, "manufacturer public key") {
		t.Errorf("expected the manufacturer public key to be rejected, got %v", resp)
	}
}

// d23Owner is the owner service a device talks to in TO2. It answers
// TO2.HelloDevice with a TO2.ProveOVHdr whose CUPHOwnerPubKey is `[null]`.
type d23Owner struct {
	t       *testing.T
	ownerPK *protocol.PublicKey
	errMsg  *protocol.ErrorMessage
}

func (o *d23Owner) Send(_ context.Context, msgType uint8, msg any, _ kex.Session) (uint8, io.ReadCloser, error) {
	var body bytes.Buffer
	switch msgType {
	case protocol.TO2HelloDeviceMsgType:
		helloHash := sha512.New384()
		if err := cbor.NewEncoder(helloHash).Encode(msg); err != nil {
			return 0, nil, err
		}
		hello := msg.(helloDeviceMsg)
		proof := cose.Sign1[ovhProof, []byte]{
			Header: cose.Header{
				Unprotected: map[cose.Label]any{
					to2NonceClaim:       protocol.Nonce{},
					to2OwnerPubKeyClaim: o.ownerPK,
				},
			},
			Payload: cbor.NewByteWrap(ovhProof{
				NumOVEntries:        1,
				NonceTO2ProveOV:     hello.NonceTO2ProveOV,
				SigInfoB:            hello.SigInfoA,
				HelloDeviceHash:     protocol.Hash{Algorithm: protocol.Sha384Hash, Value: helloHash.Sum(nil)},
				MaxOwnerMessageSize: 65535,
			}),
			Signature: []byte{0x00},
		}
		if err := cbor.NewEncoder(&body).Encode(proof.Tag()); err != nil {
			return 0, nil, err
		}
		return protocol.TO2ProveOVHdrMsgType, io.NopCloser(&body), nil

	case protocol.ErrorMsgType:
		o.errMsg = msg.(*protocol.ErrorMessage)
		return protocol.ErrorMsgType, io.NopCloser(&body), nil

	default:
		return 0, nil, fmt.Errorf("unexpected message type %d", msgType)
	}
}

func TestD23TO2ProveOVHdrNullOwnerCert(t *testing.T) {
	deviceKey, err := ecdsa.GenerateKey(elliptic.P384(), rand.Reader)
	if err != nil {
		t.Fatal(err)
	}
	owner := &d23Owner{t: t, ownerPK: d23Key(t, []byte{0x81, 0xf6})}

	defer func() {
		if r := recover(); r != nil {
			t.Fatalf("TO2 panicked on the device: %v\n%s", r, debug.Stack())
		}
	}()
	_, err = TO2(context.Background(), owner, nil, TO2Config{
		Cred: DeviceCredential{Version: 101, GUID: protocol.GUID{1}},
		Key:  deviceKey,
	})
	if err == nil {
		t.Fatal("expected TO2 to fail")
	}
	t.Logf("TO2: %v", err)
	if !strings.Contains(err.Error(), "error parsing owner public key") {
		t.Errorf("expected the owner public key to be rejected, got: %v", err)
	}
	if owner.errMsg != nil {
		t.Logf("error message sent to owner: %v", *owner.errMsg)
	}
}
