// SPDX-FileCopyrightText: (C) 2024 Intel Corporation
// SPDX-License-Identifier: Apache 2.0

package fdo

import (
	"bytes"
	"context"
	"testing"

	"github.com/fido-device-onboard/go-fdo/cbor"
	"github.com/fido-device-onboard/go-fdo/serviceinfo"
)

func d10Handle(t *testing.T, d *devmodOwnerModule, messageName string, v any) (err error) {
	t.Helper()
	body, merr := cbor.Marshal(v)
	if merr != nil {
		t.Fatal(merr)
	}
	defer func() {
		if r := recover(); r != nil {
			t.Errorf("devmod:%s handling panicked: %v", messageName, r)
		}
	}()
	return d.HandleInfo(context.Background(), messageName, bytes.NewReader(body))
}

// TestD10ModulesChunkExceedsNumModules checks that a devmod:modules chunk
// which does not fit in the announced nummodules is an error, not a panic.
func TestD10ModulesChunkExceedsNumModules(t *testing.T) {
	for _, test := range []struct {
		name       string
		numModules int
		chunks     []serviceinfo.DevmodModulesChunk
	}{
		{
			name:       "start at end",
			numModules: 1,
			chunks: []serviceinfo.DevmodModulesChunk{
				{Start: 0, Len: 1, Modules: []string{"a"}},
				{Start: 1, Len: 1, Modules: []string{"b"}},
			},
		},
		{
			name:       "len exceeds nummodules",
			numModules: 1,
			chunks: []serviceinfo.DevmodModulesChunk{
				{Start: 0, Len: 2, Modules: []string{"a", "b"}},
			},
		},
		{
			name:       "start plus len exceeds nummodules",
			numModules: 3,
			chunks: []serviceinfo.DevmodModulesChunk{
				{Start: 0, Len: 2, Modules: []string{"a", "b"}},
				{Start: 2, Len: 2, Modules: []string{"c", "d"}},
			},
		},
		{
			name:       "modules without nummodules",
			numModules: -1, // not sent
			chunks: []serviceinfo.DevmodModulesChunk{
				{Start: 0, Len: 1, Modules: []string{"a"}},
			},
		},
	} {
		t.Run(test.name, func(t *testing.T) {
			var d devmodOwnerModule
			if test.numModules >= 0 {
				if err := d10Handle(t, &d, "nummodules", test.numModules); err != nil {
					t.Fatalf("nummodules: %v", err)
				}
			}
			var err error
			for _, chunk := range test.chunks {
				if err = d10Handle(t, &d, "modules", chunk); err != nil {
					break
				}
			}
			if err == nil && !t.Failed() {
				t.Error("expected an error for a chunk exceeding nummodules")
			}
		})
	}
}

// TestD10InvalidNumModules checks that a negative or absurdly large
// devmod:nummodules value is an error, not a panic or a huge allocation.
func TestD10InvalidNumModules(t *testing.T) {
	for _, numModules := range []int64{-1, -1 << 62, 1 << 40, 1<<63 - 1} {
		var d devmodOwnerModule
		if err := d10Handle(t, &d, "nummodules", numModules); err == nil && !t.Failed() {
			t.Errorf("nummodules=%d: expected an error", numModules)
		}
	}
}

// TestD10ValidModulesChunks makes sure valid chunked module lists are still
// accepted.
func TestD10ValidModulesChunks(t *testing.T) {
	var d devmodOwnerModule
	if err := d10Handle(t, &d, "nummodules", 3); err != nil {
		t.Fatal(err)
	}
	for _, chunk := range []serviceinfo.DevmodModulesChunk{
		{Start: 0, Len: 2, Modules: []string{"a", "b"}},
		{Start: 2, Len: 1, Modules: []string{"c"}},
	} {
		if err := d10Handle(t, &d, "modules", chunk); err != nil {
			t.Fatal(err)
		}
	}
	if got := d.Modules; len(got) != 3 || got[0] != "a" || got[1] != "b" || got[2] != "c" {
		t.Errorf("unexpected modules: %v", got)
	}
}
