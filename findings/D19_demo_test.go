package cbor

import "testing"

func TestD19raw(t *testing.T) {
	var raw RawBytes
	err := Unmarshal([]byte{0xbb, 0x80, 0, 0, 0, 0, 0, 0, 0}, &raw)
	t.Logf("err=%v raw=%x", err, raw)
	if err == nil {
		t.Fatalf("accepted a truncated map (declared 2^63 pairs, none present) as a complete item")
	}
}
